// C07 - canvas operations equal a per-pixel reference model for any arguments.
//
// Subchecks
//   op1            one operation on freshly generated canvases (random full-product sampling, huge coordinates)
//   enum_pixel     exhaustive read/write_pixel coordinates around small canvases
//   enum_fill      exhaustive fill_rect rectangles (opaque / blended / 32-bit colour)
//   enum_blit      exhaustive per-axis clipping parameters (x, w, sx, dest size, source size) of the ten blits,
//                  both axes (transposed), against fixed configurations of the other axis
//   enum_lines     exhaustive end points of draw_line, exhaustive dashed axis-aligned lines
//   enum_text      draw_text at every position around small canvases
//   enum_textlen   draw_text with every text length 0..600 (quick) / 0..2100 (thorough) and around powers of two beyond, one line and
//                  several lines, positioned so that the END of the text is on the canvas
//   enum_transform mirror / invert / alpha / channel width / copies on every small canvas
//   history        rapidcheck-generated sequences of up to 25 operations on two canvases
//   clip           clipping invariance: same operation on a canvas embedded in a larger one, cropped
//   identities     mirror^2, invert^2, add-then-drop alpha, widen-then-narrow, deep copies (pixelwise and by operator==)
//   wide           whole-image transforms on very wide, very short canvases (rows of megabytes), run on a thread with an explicit stack
// Every canvas has a maximum sample value (Model::mv): the all-ones value of the channel width, or - a generated dimension - another
// value, obtained through the raw-data constructors or by loading a Netpbm file with that MAXVAL (c07/ops.hh make_image).
#include <pthread.h>

#include <exception>

#include "c07/interp.hh"
#include "verif.hh"

using namespace verif;
using namespace c07;

// ---------------------------------------------------------------- single-operation cases

struct Single {
  int op = 0;
  int64_t t[4] = {0, 0, 0, 8}; // target: w,h,alpha,cw
  int64_t o[4] = {0, 0, 0, 8}; // the other canvas (source of blits / copies)
  uint64_t seed = 0;
  int64_t a[kOpArgs] = {0};
  std::string text;
  uint64_t tmv = 0, omv = 0; // maximum sample value of the two canvases; 0 = the all-ones value of the channel width
};

static Case single_case(const std::string& check, const Single& s) {
  Case c(check);
  c.N(0).I(s.op);
  for (int i = 0; i < 4; i++) c.I(s.t[i]);
  for (int i = 0; i < 4; i++) c.I(s.o[i]);
  c.N(s.seed);
  for (int i = 0; i < kOpArgs; i++) c.I(s.a[i]);
  if (s.tmv || s.omv) c.N(s.tmv).N(s.omv); // appended (and optional) so that older saved cases still decode
  c.S(s.text);
  return c;
}

static Single decode_single(const Case& c) {
  Single s;
  s.op = c.i(1);
  for (int i = 0; i < 4; i++) s.t[i] = c.i(2 + i);
  for (int i = 0; i < 4; i++) s.o[i] = c.i(6 + i);
  s.seed = c.u(10);
  for (int i = 0; i < kOpArgs; i++) s.a[i] = c.i(11 + i);
  if (c.n.size() > 11 + kOpArgs) s.tmv = c.u(11 + kOpArgs), s.omv = c.u(12 + kOpArgs);
  if (!c.s.empty()) s.text = c.s[0];
  return s;
}

static void validate_dims(const int64_t* d, uint64_t mv = 0) {
  if (d[0] < 0 || d[1] < 0 || d[0] > 64 || d[1] > 64 || (d[3] != 8 && d[3] != 16 && d[3] != 32 && d[3] != 64)) throw std::logic_error("canvas outside the domain");
  if (mv > mask_of(d[3])) throw std::logic_error("maximum sample value outside the domain");
}

static uint64_t single_hash(const Single& s) {
  uint64_t h = mix(s.op, s.seed);
  for (int i = 0; i < 4; i++) h = mix(mix(h, s.t[i]), s.o[i]);
  for (int i = 0; i < kOpArgs; i++) h = mix(h, s.a[i]);
  if (s.tmv || s.omv) h = mix(mix(h, s.tmv), s.omv);
  return hash_str(s.text, h);
}

static void run_single(const Single& s) {
  validate_dims(s.t, s.tmv);
  validate_dims(s.o, s.omv);
  if (s.op < 0 || s.op >= OP_COUNT) throw std::logic_error("bad opcode");
  Canvas T(s.t[0], s.t[1], s.t[2] != 0, s.t[3], s.tmv, s.seed >> 3), O(s.o[0], s.o[1], s.o[2] != 0, s.o[3], s.omv, s.seed >> 5);
  if (T.m.mv != T.m.mask() || O.m.mv != O.m.mask()) ctx().cls("canvas:own-maximum-value");
  fill_content(T, s.seed);
  fill_content(O, s.seed + 1);
  std::vector<std::string> strings{s.text};
  int64_t a[kOpArgs];
  memcpy(a, s.a, sizeof(a));
  if (s.op == OP_TEXT) a[10] = 0;
  OpResult r = apply_op(s.op, T, O, a, strings);
  if (!r.excluded.empty()) {
    ctx().exclude(r.excluded);
    return;
  }
  check_canvases(T, O, s.op, "single operation");
  if (r.nontrivial) ctx().nontrivial(single_hash(s));
}

static const int64_t kFmt[8][2] = {{0, 8}, {1, 8}, {0, 16}, {1, 16}, {0, 32}, {1, 32}, {0, 64}, {1, 64}};

// Generic driver for the enumerating subchecks: a block case (n[0]==1) expands to many Singles.
typedef std::function<void(const Case&, const std::function<void(const Single&)>&)> Expander;

static std::function<void(const Case&)> make_run(Expander expand) {
  return [expand](const Case& c) {
    if (c.u(0) == 0) {
      run_single(decode_single(c));
      return;
    }
    expand(c, [&](const Single& s) {
      try {
        run_single(s);
      } catch (const Fail& f) {
        throw Fail{f.sig, f.msg + "  [single case: " + single_case(c.check, s).encode() + "]"};
      }
      ctx().count(1);
    });
  };
}

static void enumerate_blocks(Enum& e, const std::vector<Case>& blocks, const Expander& expand) {
  for (size_t i = 0; i < blocks.size() && !e.stop; i++) {
    if (!e.mine(i)) continue;
    e.journal_block(blocks[i]);
    expand(blocks[i], [&](const Single& s) {
      if (e.stop) return;
      try {
        run_single(s);
        e.x.count(1);
      } catch (const Fail&) {
        e.exec_light(single_case(e.sc.name, s));
      }
    });
  }
}

static int scope_n(bool thorough) { return thorough ? 8 : 4; }
static int scope_r(bool thorough) { return thorough ? 3 : 2; }

// ---------------------------------------------------------------- enum_pixel: block n=[1, W, H, fmt, R]
static void expand_pixel(const Case& c, const std::function<void(const Single&)>& f) {
  int64_t W = c.i(1), H = c.i(2), fmt = c.i(3), R = c.i(4);
  for (int op : {OP_WRITE64, OP_WRITE32, OP_READ}) {
    for (int64_t x = -R; x <= W + R; x++) {
      for (int64_t y = -R; y <= H + R; y++) {
        Single s;
        s.op = op;
        s.t[0] = W, s.t[1] = H, s.t[2] = kFmt[fmt][0], s.t[3] = kFmt[fmt][1];
        s.seed = W * 31 + H;
        s.a[0] = x, s.a[1] = y;
        if (op == OP_WRITE64) {
          s.a[2] = 0x1122334455667788LL, s.a[3] = -1, s.a[4] = 0x80, s.a[5] = 0x0123456789ABCDEFLL;
        } else {
          s.a[2] = 0xA1B2C3D4LL;
        }
        f(s);
      }
    }
  }
  // what read_pixel reports as alpha on an opaque canvas with a maximum value of its own
  if (!kFmt[fmt][0]) {
    for (unsigned k = 0; k < 4; k++) {
      for (int64_t x = -1; x <= W; x++) {
        for (int64_t y = -1; y <= H; y++) {
          Single s;
          s.op = OP_READ;
          s.t[0] = W, s.t[1] = H, s.t[2] = 0, s.t[3] = kFmt[fmt][1];
          s.tmv = alt_maxval(kFmt[fmt][1], k);
          s.seed = W * 31 + H + k * 8; // bits 3.. select the construction route
          s.a[0] = x, s.a[1] = y;
          f(s);
        }
      }
    }
  }
}
static void enum_pixel(Enum& e) {
  int N = scope_n(e.thorough()), R = scope_r(e.thorough());
  std::vector<Case> blocks;
  for (int W = 0; W <= N; W++)
    for (int H = 0; H <= N; H++)
      for (int fmt = 0; fmt < 8; fmt++) blocks.push_back(Case(e.sc.name).N(1).I(W).I(H).I(fmt).I(R));
  enumerate_blocks(e, blocks, expand_pixel);
  if (!e.stop) e.complete(cat("read_pixel/write_pixel (64-bit and packed forms) at every coordinate in [-", R, ",size+", R, "]^2 of every canvas 0..", N, " x 0..", N, " in all 8 formats"));
}

// ---------------------------------------------------------------- enum_fill: block n=[1, W, H, variant, R]
static void expand_fill(const Case& c, const std::function<void(const Single&)>& f) {
  int64_t W = c.i(1), H = c.i(2), variant = c.i(3), R = c.i(4);
  int fmt = (W + 3 * H + 5 * variant) % 8;
  for (int64_t x = -R; x <= W + R; x++) {
    for (int64_t y = -R; y <= H + R; y++) {
      for (int64_t w = -2; w <= W + 2 * R; w++) {
        for (int64_t h = -2; h <= H + 2 * R; h++) {
          Single s;
          s.op = variant == 2 ? OP_FILL32 : OP_FILL64;
          s.t[0] = W, s.t[1] = H, s.t[2] = kFmt[fmt][0], s.t[3] = kFmt[fmt][1];
          s.seed = W * 131 + H * 7 + variant;
          s.a[0] = x, s.a[1] = y, s.a[2] = w, s.a[3] = h;
          if (variant == 2) {
            s.a[4] = ((x + y) & 1) ? 0x10F0807FLL : 0x332211FFLL;
          } else {
            s.a[4] = 0x1FF, s.a[5] = 0x40, s.a[6] = -2;
            s.a[7] = variant == 0 ? 0xFF : variant == 1 ? 0x80 : variant == 3 ? 0 : 0x1234;
          }
          f(s);
        }
      }
    }
  }
}
static void enum_fill(Enum& e) {
  int N = scope_n(e.thorough()), R = scope_r(e.thorough());
  std::vector<Case> blocks;
  for (int W = 0; W <= N; W++)
    for (int H = 0; H <= N; H++)
      for (int variant = 0; variant < 5; variant++) blocks.push_back(Case(e.sc.name).N(1).I(W).I(H).I(variant).I(R));
  enumerate_blocks(e, blocks, expand_fill);
  if (!e.stop) e.complete(cat("fill_rect with every (x,y) in [-", R, ",size+", R, "]^2 and (w,h) in [-2,size+", 2 * R, "]^2 on every canvas 0..", N, " x 0..", N, ", opaque / blended / zero-alpha / wide-alpha / packed colour"));
}

// ---------------------------------------------------------------- enum_blit: block n=[1, op, transposed, dstN, srcN, other, R]
static const int kBlitOps[10] = {OP_BLIT, OP_MASK_BLIT64, OP_MASK_BLIT32, OP_MASK_DST64, OP_MASK_DST32, OP_MASK_IMG, OP_BLEND, OP_BLEND_ALPHA, OP_CUSTOM32, OP_CUSTOM64};
// fixed configurations of the other axis: dest size, source size, position, extent, source position
static const int64_t kOther[8][5] = {{3, 3, 0, 3, 0}, {4, 2, -1, 5, 1}, {2, 5, 1, -1, 2}, {0, 3, 0, 2, 0}, {3, 0, 1, 2, 0}, {5, 4, 2, 2, -1}, {1, 1, 0, 1, 0}, {6, 6, -2, 9, -1}};

static void blit_extras(Single& s, uint64_t salt) {
  uint64_t M = mask_of(s.t[3]);
  switch (s.op) {
    case OP_MASK_BLIT64:
    case OP_MASK_DST64: {
      RGBA k = named_colour(salt % 6, s.op == OP_MASK_BLIT64 ? mask_of(s.o[3]) : M);
      s.a[6] = k.r, s.a[7] = k.g, s.a[8] = k.b;
      break;
    }
    case OP_MASK_BLIT32:
    case OP_MASK_DST32:
      s.a[6] = compress32(named_colour(salt % 6, 0xFF));
      break;
    case OP_MASK_IMG: {
      int64_t ew = s.a[2] < 0 ? s.o[0] : s.a[2], eh = s.a[3] < 0 ? s.o[1] : s.a[3];
      int64_t mw = std::max(ew, s.o[0]), mh = std::max(eh, s.o[1]);
      if (salt % 7 == 0 && ew > 0) mw = ew - 1; // too small: must be refused
      if (salt % 11 == 0 && eh > 0) mh = eh - 1;
      if (salt % 13 == 0) mw = ew, mh = eh; // covers (w,h) but perhaps not the source-space area: excluded when it does not
      s.a[6] = std::min<int64_t>(mw, 64), s.a[7] = std::min<int64_t>(mh, 64), s.a[8] = salt * 2654435761ULL % 1000003;
      break;
    }
    case OP_BLEND_ALPHA: {
      const uint64_t al[6] = {0, 0x80, M, 0xFF, 1, M / 2 + 1};
      s.a[6] = al[salt % 6];
      break;
    }
    default: break;
  }
}

static void expand_blit(const Case& c, const std::function<void(const Single&)>& f) {
  int op = c.i(1);
  bool transposed = c.i(2) != 0;
  int64_t dstN = c.i(3), srcN = c.i(4), other = c.i(5), R = c.i(6);
  const int64_t* oc = kOther[other];
  uint64_t bh = mix(mix(op, dstN * 16 + srcN), other * 2 + transposed);
  int tf = bh % 8, of = (bh >> 8) % 8;
  int64_t wmax = std::max(dstN, srcN) + R;
  for (int64_t x = -R; x <= dstN + R; x++) {
    for (int64_t w = -2; w <= wmax; w++) {
      for (int64_t sx = -R; sx <= srcN + R; sx++) {
        Single s;
        s.op = op;
        int64_t dims_t[2] = {dstN, oc[0]}, dims_o[2] = {srcN, oc[1]};
        int64_t pos[2] = {x, oc[2]}, ext[2] = {w, oc[3]}, spos[2] = {sx, oc[4]};
        int p = transposed ? 1 : 0;
        s.t[0] = dims_t[p], s.t[1] = dims_t[1 - p], s.t[2] = kFmt[tf][0], s.t[3] = kFmt[tf][1];
        s.o[0] = dims_o[p], s.o[1] = dims_o[1 - p], s.o[2] = kFmt[of][0], s.o[3] = kFmt[of][1];
        s.a[0] = pos[p], s.a[1] = pos[1 - p], s.a[2] = ext[p], s.a[3] = ext[1 - p], s.a[4] = spos[p], s.a[5] = spos[1 - p];
        s.seed = bh;
        blit_extras(s, static_cast<uint64_t>((x + 50) * 10007 + (w + 50) * 101 + (sx + 50)));
        f(s);
      }
    }
  }
}
static void enum_blit(Enum& e) {
  int N = scope_n(e.thorough()), R = scope_r(e.thorough());
  std::vector<Case> blocks;
  for (int k = 0; k < 10; k++)
    for (int tr = 0; tr < 2; tr++)
      for (int d = 0; d <= N; d++)
        for (int s = 0; s <= N; s++)
          for (int other = 0; other < 8; other++) blocks.push_back(Case(e.sc.name).N(1).I(kBlitOps[k]).I(tr).I(d).I(s).I(other).I(R));
  enumerate_blocks(e, blocks, expand_blit);
  if (!e.stop) e.complete(cat("ten blit operations x both axes x dest size 0..", N, " x source size 0..", N, " x all (x, w, sx) in [-", R, ",size+", R, "] / [-2,max size+", R, "] x 8 configurations of the other axis"));
}

// ---------------------------------------------------------------- enum_lines: block n=[1, kind, W, H, p, R]  kind 0: line from x0=p; 1: hline; 2: vline
static void expand_lines(const Case& c, const std::function<void(const Single&)>& f) {
  int64_t kind = c.i(1), W = c.i(2), H = c.i(3), p = c.i(4), R = c.i(5);
  int fmt = (W * 3 + H + p + 16) % 8;
  Single s;
  s.t[0] = W, s.t[1] = H, s.t[2] = kFmt[fmt][0], s.t[3] = kFmt[fmt][1];
  s.seed = W * 11 + H;
  if (kind == 0) {
    for (int64_t y0 = -R; y0 <= H + R; y0++) {
      for (int64_t x1 = -R; x1 <= W + R; x1++) {
        for (int64_t y1 = -R; y1 <= H + R; y1++) {
          bool packed = (y0 + x1 + y1) & 1;
          s.op = packed ? OP_LINE32 : OP_LINE64;
          s.a[0] = p, s.a[1] = y0, s.a[2] = x1, s.a[3] = y1;
          if (packed) s.a[4] = 0x11FF2280LL;
          else s.a[4] = 0x1F0, s.a[5] = 0, s.a[6] = -1, s.a[7] = 0x77;
          f(s);
        }
      }
    }
  } else {
    s.op = kind == 1 ? OP_HLINE : OP_VLINE;
    int64_t ext = kind == 1 ? W : H, oth = kind == 1 ? H : W;
    for (int64_t p2 = -R; p2 <= ext + R; p2++) {
      for (int64_t q = -1; q <= oth; q++) {
        for (int64_t dash : {0, 1, 2, 3, 5, -1, -2, 64}) {
          if (kind == 1) s.a[0] = p, s.a[1] = p2, s.a[2] = q;
          else s.a[0] = q, s.a[1] = p, s.a[2] = p2;
          s.a[3] = dash;
          s.a[4] = 0x44, s.a[5] = 0x155, s.a[6] = 0, s.a[7] = 0xFF;
          s.a[8] = (p2 + q) & 1;
          f(s);
        }
      }
    }
  }
}
static void enum_lines(Enum& e) {
  int N = scope_n(e.thorough()), R = scope_r(e.thorough());
  std::vector<Case> blocks;
  for (int W = 0; W <= N; W++)
    for (int H = 0; H <= N; H++) {
      for (int p = -R; p <= W + R; p++) blocks.push_back(Case(e.sc.name).N(1).I(0).I(W).I(H).I(p).I(R));
      for (int p = -R; p <= W + R; p++) blocks.push_back(Case(e.sc.name).N(1).I(1).I(W).I(H).I(p).I(R));
      for (int p = -R; p <= H + R; p++) blocks.push_back(Case(e.sc.name).N(1).I(2).I(W).I(H).I(p).I(R));
    }
  enumerate_blocks(e, blocks, expand_lines);
  if (!e.stop) e.complete(cat("draw_line for every pair of end points in [-", R, ",size+", R, "]^4 and dashed horizontal/vertical lines (8 dash lengths) on every canvas 0..", N, " x 0..", N));
}

// ---------------------------------------------------------------- enum_text: block n=[1, W, H, fmt, which]
// the last three contain zero bytes: the formatted text is a byte string with a length, and a zero byte in it (put there by a %c
// conversion) is one more unprintable character
static const std::string kTexts[9] = {"A", "g\n#", "\x01~ ", "W\r\nq", "", "\xFFj", std::string("A\0B", 3), std::string("\0", 1), std::string("p\0\n\0q", 5)};
static const int kNumTexts = 9;
static void expand_text(const Case& c, const std::function<void(const Single&)>& f) {
  int64_t W = c.i(1), H = c.i(2), fmt = c.i(3), which = c.i(4);
  if (which < 0 || which >= kNumTexts) throw std::logic_error("enum_text: text index outside the domain");
  Single s;
  s.op = OP_TEXT;
  s.t[0] = W, s.t[1] = H, s.t[2] = kFmt[fmt][0], s.t[3] = kFmt[fmt][1];
  s.seed = W + H * 9;
  s.text = kTexts[which];
  for (int64_t x = -8; x <= W + 2; x++) {
    for (int64_t y = -10; y <= H + 2; y++) {
      s.a[0] = x, s.a[1] = y;
      s.a[2] = 0xF0, s.a[3] = 0x1, s.a[4] = 0x1FF, s.a[5] = ((x + y) & 1) ? 0xFF : 0x60;
      s.a[6] = 0x20, s.a[7] = 0x30, s.a[8] = 0x40;
      s.a[9] = (x & 1) ? 0 : ((y & 1) ? 0xFF : 0x80);
      s.a[11] = (x + 2 * y + 100) % 5 + 5 * ((3 * x + y + 200) % 4); // overload, and how the text gets into the formatted output (c07/interp.hh)
      f(s);
    }
  }
}
static void enum_text(Enum& e) {
  std::vector<Case> blocks;
  std::vector<std::pair<int, int>> sizes;
  if (e.thorough()) {
    for (int W = 0; W <= 8; W++)
      for (int H = 0; H <= 8; H++) sizes.push_back({W, H});
    sizes.push_back({13, 10});
    sizes.push_back({20, 17});
  } else {
    sizes = {{0, 0}, {1, 1}, {3, 2}, {4, 4}, {6, 8}, {13, 10}};
  }
  size_t k = 0;
  for (auto sz : sizes)
    for (int which = 0; which < kNumTexts; which++, k++) blocks.push_back(Case(e.sc.name).N(1).I(sz.first).I(sz.second).I(k % 8).I(which));
  enumerate_blocks(e, blocks, expand_text);
  if (!e.stop) e.complete(cat("draw_text (5 overloads x 4 ways of formatting, 9 strings incl. newlines, unprintable bytes and zero bytes, with/without background) at every position in [-8,w+2] x [-10,h+2] on ", sizes.size(), " canvas sizes"));
}

// ---------------------------------------------------------------- enum_textlen: block n=[1, layout, first length, last length]
// "For any ... text": the length of the text is an argument like any other, and what happens to the END of a long text is only visible
// when the end is on the canvas. Every length in a range; layout 0 = one line drawn at a strongly negative x, layout 1 = a line break
// every 37 characters (and a stray carriage return) drawn at a negative y, so that the last one or two characters are on the canvas.
// Most characters left of the canvas are spaces (each off-canvas glyph pixel costs phosg a thrown-and-swallowed out_of_range).
static std::string textlen_text(size_t len, int layout) {
  std::string t(len, ' ');
  for (size_t i = 0; i < len; i++) {
    uint64_t k = mix(i, len * 2 + layout);
    if (i + 4 >= len || (i % 16) == 5) t[i] = static_cast<char>(0x21 + k % 0x5E); // printable, not a space
    if (layout == 1 && (i % 37) == 36) t[i] = '\n';
    if (layout == 1 && (i % 101) == 50) t[i] = '\r';
  }
  return t;
}
static void expand_textlen(const Case& c, const std::function<void(const Single&)>& f) {
  int64_t layout = c.i(1), first = c.i(2), last = c.i(3);
  if (layout < 0 || layout > 1 || first < 0 || last < first || last > 70000) throw std::logic_error("textlen: block outside the domain");
  for (int64_t len = first; len <= last; len++) {
    Single s;
    s.op = OP_TEXT;
    int fmt = static_cast<int>((len + 3 * layout) % 8);
    s.t[0] = 13, s.t[1] = 10, s.t[2] = kFmt[fmt][0], s.t[3] = kFmt[fmt][1];
    s.seed = len * 2 + layout;
    s.text = textlen_text(len, layout);
    int64_t lines = 0, last_line = 0;
    for (char ch : s.text) {
      if (ch == '\n') lines++, last_line = 0;
      else if (ch != '\r') last_line++;
    }
    s.a[0] = 2 - 6 * std::max<int64_t>(last_line - 2, 0);
    s.a[1] = 1 - 8 * lines;
    s.a[2] = 0xF0, s.a[3] = 0x1, s.a[4] = 0x1FF, s.a[5] = (len & 1) ? 0xFF : 0x60;
    s.a[6] = 0x20, s.a[7] = 0x30, s.a[8] = 0x40;
    s.a[9] = (len % 3) == 0 ? 0 : ((len % 3) == 1 ? 0xFF : 0x80);
    s.a[11] = len % 5 + 5 * ((len / 5) % 4);
    f(s);
  }
}
static void enum_textlen(Enum& e) {
  std::vector<Case> blocks;
  int64_t dense = e.thorough() ? 2100 : 600;
  for (int layout = 0; layout < 2; layout++) {
    for (int64_t a = 0; a <= dense; a += 20) blocks.push_back(Case(e.sc.name).N(1).I(layout).I(a).I(std::min<int64_t>(a + 19, dense)));
    for (int64_t p : {1024, 2048, 4096, 8192, 16384, 32768, 65536}) {
      if (p <= dense + 4 || (!e.thorough() && p > 4096)) continue;
      for (int64_t len = p - 3; len <= p + 2; len++) blocks.push_back(Case(e.sc.name).N(1).I(layout).I(len).I(len));
    }
  }
  enumerate_blocks(e, blocks, expand_textlen);
  if (!e.stop) e.complete(cat("draw_text (5 overloads, 4 ways of formatting) with every text length 0..", dense, " and 2^k-3..2^k+2 up to ", e.thorough() ? 65536 : 4096, ", as one line and with line breaks, placed so that the last characters are on a 13x10 canvas"));
}

// ---------------------------------------------------------------- enum_transform: block n=[1, W, H]
static void expand_transform(const Case& c, const std::function<void(const Single&)>& f) {
  int64_t W = c.i(1), H = c.i(2);
  // mvk 0: both canvases have the all-ones maximum value; 1..: the target (and, for the copies / operator==, the other canvas in
  // some combinations) has a maximum value of its own, built through each construction route
  for (int mvk = 0; mvk < 5; mvk++)
  for (int fmt = 0; fmt < 8; fmt++) {
    for (int of = 0; of < 8; of += 3) {
      if (mvk > 2 && of != 0) continue;
      Single s;
      s.t[0] = W, s.t[1] = H, s.t[2] = kFmt[fmt][0], s.t[3] = kFmt[fmt][1];
      s.o[0] = (W + of) % 9, s.o[1] = (H * 2 + of) % 9, s.o[2] = kFmt[of][0], s.o[3] = kFmt[of][1];
      s.seed = W * 17 + H + fmt * 1000;
      if (mvk) {
        s.tmv = (mvk == 2 && of == 3) ? 0 : alt_maxval(kFmt[fmt][1], mvk - 1);
        s.omv = (of == 0 && mvk == 1) ? 0 : alt_maxval(kFmt[of][1], mvk + of);
        s.seed += static_cast<uint64_t>(mvk + of) * 8; // construction route of the target in bits 3-4, of the other canvas in bits 5-6
      }
      auto go = [&](int op, int64_t a0 = 0, int64_t a1 = 0, int64_t a2 = 0, int64_t a3 = 0) {
        s.op = op;
        memset(s.a, 0, sizeof(s.a));
        s.a[0] = a0, s.a[1] = a1, s.a[2] = a2, s.a[3] = a3;
        f(s);
      };
      if (of == 0) {
        go(OP_REV_H);
        go(OP_REV_V);
        go(OP_INVERT);
        go(OP_SET_ALPHA, 0);
        go(OP_SET_ALPHA, 1);
        for (int64_t cw : {8, 16, 32, 64, 0, 12, 24, 128}) go(OP_SET_CW, cw);
        uint64_t M = s.tmv ? s.tmv : mask_of(kFmt[fmt][1]);
        for (unsigned k = 0; k < 6; k++) {
          RGBA n = named_colour(k, M);
          go(OP_ALPHA_FROM_MASK64, n.r, n.g, n.b);
          go(OP_ALPHA_FROM_MASK32, compress32(named_colour(k, 0xFF)));
        }
        go(OP_CLEAR64, 0x123, -1, 0, 0x80);
        go(OP_CLEAR32, 0x01FF7F80);
      }
      go(OP_COPY_ASSIGN);
      go(OP_COPY_CONSTRUCT);
      go(OP_MOVE_ASSIGN);
      go(OP_EQUALS);
    }
  }
}
static void enum_transform(Enum& e) {
  int N = scope_n(e.thorough());
  std::vector<Case> blocks;
  for (int W = 0; W <= N; W++)
    for (int H = 0; H <= N; H++) blocks.push_back(Case(e.sc.name).N(1).I(W).I(H));
  enumerate_blocks(e, blocks, expand_transform);
  if (!e.stop) e.complete(cat("mirror, invert, set_has_alpha, set_channel_width (valid and invalid), set_alpha_from_mask_color, clear, copy/move, operator== on every canvas 0..", N, " x 0..", N, " in all 8 formats, with the all-ones maximum value and with 4 other maximum values (raw-data constructors, Netpbm load)"));
}

// ---------------------------------------------------------------- random generation

static int64_t gen_coord(int64_t size, bool allow_huge) {
  switch (vg::below(allow_huge ? 10 : 8)) {
    case 0:
    case 1:
    case 2:
    case 3: return vg::range(-3, size + 3);
    case 4: return vg::pick<int64_t>({0, -1, 1, size, size - 1, size + 1});
    case 5: return vg::range(-50, 50);
    case 6: return vg::range(0, size > 0 ? size - 1 : 0);
    case 7: return vg::range(-size - 3, 2 * size + 3);
    default: {
      int64_t big = vg::pick<int64_t>({1LL << 31, (1LL << 31) - 1, (1LL << 31) + 1, 1LL << 20, (1LL << 31) - size});
      return vg::coin() ? big : -big;
    }
  }
}
static int64_t gen_extent(int64_t size, bool allow_huge) {
  if (vg::chance(1, 8)) return vg::range(-3, -1);
  if (vg::chance(1, 8)) return 0;
  int64_t v = gen_coord(size, allow_huge);
  return vg::chance(3, 4) && v < 0 ? -v : v;
}
static uint64_t gen_channel(uint64_t M) {
  switch (vg::below(7)) {
    case 0: return 0;
    case 1: return 0xFF;
    case 2: return M;
    case 3: return 0x80;
    case 4: return vg::u64();
    case 5: return vg::below(256);
    default: return vg::u64() & M;
  }
}
static std::string gen_text(size_t maxlen) {
  size_t n = vg::below(maxlen + 1);
  std::string s;
  for (size_t i = 0; i < n; i++) {
    switch (vg::below(8)) {
      case 0: s += '\n'; break;
      case 1: s += static_cast<char>(vg::range(0, 255)); break;
      case 2: s += vg::pick<char>({'\r', ' ', '\x7F', '\x1F', '\x80', '%', '\0'}); break;
      default: s += static_cast<char>(vg::range(0x21, 0x7E));
    }
  }
  return s;
}

// a long text: length anywhere up to 300, or next to a power of two; few line breaks
static std::string gen_long_text() {
  size_t n;
  switch (vg::below(3)) {
    case 0: n = vg::range(8, 100); break;
    case 1: n = vg::range(100, 300); break;
    default: n = static_cast<size_t>(vg::pick<int64_t>({32, 64, 128, 256, 512}) + vg::range(-2, 2));
  }
  std::string s;
  for (size_t i = 0; i < n; i++) {
    switch (vg::below(24)) {
      case 0: s += '\n'; break;
      case 1: s += static_cast<char>(vg::range(0, 255)); break;
      case 2: s += vg::pick<char>({'\r', '\x7F', '\x1F', '\x80', '%', '\0'}); break;
      case 3:
      case 4:
      case 5:
      case 6:
      case 7:
      case 8:
      case 9:
      case 10: s += ' '; break;
      default: s += static_cast<char>(vg::range(0x21, 0x7E));
    }
  }
  // at most 8 zero bytes (what the interpreter's format modes can express): further ones become another unprintable byte
  size_t zeros = 0;
  for (char& ch : s) {
    if (ch == 0 && ++zeros > 8) ch = '\x01';
  }
  return s;
}

struct Dims {
  int64_t w, h, alpha, cw;
  uint64_t mv = 0; // maximum sample value, 0 = all ones of the channel width
};
static uint64_t gen_maxval(int64_t cw) {
  uint64_t M = mask_of(cw);
  switch (vg::below(4)) {
    case 0: return alt_maxval(cw, vg::below(4));
    case 1: return vg::pick<uint64_t>({1, 2, 0x7F, 0x80, 0xFE, 0xFF, 100}) & M;
    case 2: return M - vg::below(3) - 1;
    default: {
      uint64_t v = vg::u64() & M;
      if (cw > 8 && vg::coin()) v >>= cw / 2; // a value that would also fit the next narrower width
      return v ? v : 1;
    }
  }
}
static Dims gen_dims(int64_t maxside) {
  Dims d;
  d.w = vg::chance(1, 10) ? 0 : vg::chance(1, 2) ? vg::range(1, 8) : vg::range(1, maxside);
  d.h = vg::chance(1, 10) ? 0 : vg::chance(1, 2) ? vg::range(1, 8) : vg::range(1, maxside);
  d.alpha = vg::coin();
  d.cw = vg::pick<int64_t>({8, 8, 16, 32, 64});
  if (vg::chance(1, 4)) {
    d.mv = gen_maxval(d.cw);
    if (d.mv == mask_of(d.cw)) d.mv = 0;
  }
  return d;
}
// two canvases: when both have a maximum value of their own and the same channel width, it is often the same one
static void relate_maxvals(const Dims& t, Dims& o) {
  if (t.mv && o.mv && t.cw == o.cw && vg::coin()) o.mv = t.mv;
}

// draws the arguments of one operation given the current geometry of target and source
static void gen_op_args(int op, const Dims& t, const Dims& o, int64_t* a, std::vector<std::string>& strings, bool allow_huge, bool long_texts = false) {
  memset(a, 0, sizeof(int64_t) * kOpArgs);
  uint64_t M = mask_of(t.cw);
  auto colour = [&](int64_t* dst, int n) {
    if ((t.mv || o.mv) && vg::chance(1, 4)) {
      RGBA k = named_colour(vg::below(6), (t.mv && (!o.mv || vg::coin())) ? t.mv : o.mv);
      uint64_t v[4] = {k.r, k.g, k.b, k.a};
      for (int i = 0; i < n; i++) dst[i] = v[i];
    } else if (vg::chance(1, 3)) {
      RGBA k = named_colour(vg::below(6), vg::coin() ? M : mask_of(o.cw));
      uint64_t v[4] = {k.r, k.g, k.b, k.a};
      for (int i = 0; i < n; i++) dst[i] = v[i];
    } else {
      for (int i = 0; i < n; i++) dst[i] = gen_channel(M);
    }
  };
  auto colour32 = [&]() -> int64_t {
    if (vg::chance(1, 3)) return compress32(named_colour(vg::below(6), 0xFF));
    return static_cast<uint32_t>(vg::u64());
  };
  auto rect = [&](bool with_source) {
    a[0] = gen_coord(t.w, allow_huge);
    a[1] = gen_coord(t.h, allow_huge);
    a[2] = gen_extent(with_source ? std::max(t.w, o.w) : t.w, allow_huge);
    a[3] = gen_extent(with_source ? std::max(t.h, o.h) : t.h, allow_huge);
    if (with_source) {
      a[4] = gen_coord(o.w, allow_huge);
      a[5] = gen_coord(o.h, allow_huge);
    }
  };
  switch (op) {
    case OP_WRITE64:
      a[0] = gen_coord(t.w, true), a[1] = gen_coord(t.h, true);
      if (vg::chance(1, 10)) a[0] = vg::pick<int64_t>({INT64_MIN, INT64_MAX, -1});
      colour(a + 2, 4);
      break;
    case OP_WRITE32: a[0] = gen_coord(t.w, true), a[1] = gen_coord(t.h, true), a[2] = colour32(); break;
    case OP_READ:
      a[0] = gen_coord(t.w, true), a[1] = gen_coord(t.h, true);
      if (vg::chance(1, 10)) a[1] = vg::pick<int64_t>({INT64_MIN, INT64_MAX, -1});
      break;
    case OP_CLEAR64: colour(a, 4); break;
    case OP_CLEAR32: a[0] = colour32(); break;
    case OP_FILL64:
      rect(false);
      colour(a + 4, 4);
      if (vg::chance(1, 3)) a[7] = 0xFF;
      break;
    case OP_FILL32:
      rect(false);
      a[4] = colour32();
      if (vg::chance(1, 3)) a[4] |= 0xFF;
      break;
    case OP_BLIT:
    case OP_BLEND:
    case OP_CUSTOM32:
    case OP_CUSTOM64: rect(true); break;
    case OP_MASK_BLIT64:
    case OP_MASK_DST64:
      rect(true);
      colour(a + 6, 3);
      break;
    case OP_MASK_BLIT32:
    case OP_MASK_DST32:
      rect(true);
      a[6] = colour32();
      break;
    case OP_MASK_IMG: {
      rect(true);
      int64_t ew = a[2] < 0 ? o.w : a[2], eh = a[3] < 0 ? o.h : a[3];
      int64_t mw = std::max(ew, o.w), mh = std::max(eh, o.h);
      switch (vg::below(6)) {
        case 0: mw = ew > 0 ? vg::range(0, std::min<int64_t>(ew - 1, 64)) : mw; break; // too small
        case 1: mh = eh > 0 ? vg::range(0, std::min<int64_t>(eh - 1, 64)) : mh; break;
        case 2: mw = ew, mh = eh; break; // may not cover the source-space area
        case 3: mw += vg::range(0, 3), mh += vg::range(0, 3); break;
        default: break;
      }
      a[6] = std::min<int64_t>(std::max<int64_t>(mw, 0), 64);
      a[7] = std::min<int64_t>(std::max<int64_t>(mh, 0), 64);
      a[8] = vg::below(1000000);
      break;
    }
    case OP_BLEND_ALPHA:
      rect(true);
      a[6] = (t.mv && vg::chance(1, 3)) ? t.mv : gen_channel(M);
      break;
    case OP_LINE64:
    case OP_LINE32:
      a[0] = gen_coord(t.w, allow_huge), a[1] = gen_coord(t.h, allow_huge), a[2] = gen_coord(t.w, allow_huge), a[3] = gen_coord(t.h, allow_huge);
      if (vg::chance(1, 2)) { // at least one end inside when possible
        a[0] = vg::range(0, t.w > 0 ? t.w - 1 : 0), a[1] = vg::range(0, t.h > 0 ? t.h - 1 : 0);
      }
      if (vg::chance(1, 3)) a[2] = vg::range(0, t.w > 0 ? t.w - 1 : 0), a[3] = vg::range(0, t.h > 0 ? t.h - 1 : 0);
      if (op == OP_LINE64) colour(a + 4, 4);
      else a[4] = colour32();
      break;
    case OP_HLINE:
    case OP_VLINE: {
      int64_t ext = op == OP_HLINE ? t.w : t.h, oth = op == OP_HLINE ? t.h : t.w;
      int64_t p1 = gen_coord(ext, allow_huge), p2 = gen_coord(ext, allow_huge), q = gen_coord(oth, allow_huge);
      if (vg::chance(1, 2)) q = vg::range(0, oth > 0 ? oth - 1 : 0);
      if (vg::chance(1, 2) && p1 > p2) std::swap(p1, p2);
      bool huge = std::max(std::abs(p1), std::abs(p2)) > 1000;
      int64_t dash = vg::pick<int64_t>({0, 0, 1, 2, 3, 4, 7, 64, -1, -3});
      if (!huge && vg::chance(1, 6)) dash = vg::pick<int64_t>({1LL << 31, 1000, -(1LL << 31)});
      if (op == OP_HLINE) a[0] = p1, a[1] = p2, a[2] = q;
      else a[0] = q, a[1] = p1, a[2] = p2;
      a[3] = dash;
      colour(a + 4, 4);
      a[8] = vg::coin();
      break;
    }
    case OP_TEXT: {
      bool far = vg::chance(1, 8) && allow_huge;
      bool longtext = !far && long_texts && vg::chance(1, 10);
      a[0] = far ? gen_coord(t.w, true) : vg::range(-14, t.w + 3);
      a[1] = far ? gen_coord(t.h, true) : vg::range(-18, t.h + 3);
      colour(a + 2, 4);
      colour(a + 6, 4);
      if (vg::chance(1, 3)) a[9] = 0;
      if (vg::chance(1, 3)) a[9] = 0xFF;
      if (longtext) {
        // the end of the text on (or next to) the canvas: x moved left by the length of the last line, y up by the number of line breaks
        std::string lt = gen_long_text();
        int64_t lines = 0, last_line = 0;
        for (char ch : lt) {
          if (ch == '\n') lines++, last_line = 0;
          else if (ch != '\r') last_line++;
        }
        if (vg::chance(3, 4)) {
          a[0] = vg::range(-8, t.w + 2) - 6 * std::max<int64_t>(last_line - vg::range(1, 3), 0);
          a[1] = vg::range(-6, t.h + 2) - 8 * lines;
        }
        strings.push_back(lt);
        a[10] = strings.size() - 1;
        a[11] = vg::below(5) + 5 * vg::below(4);
        break;
      }
      strings.push_back(gen_text(far ? 3 : 7));
      a[10] = strings.size() - 1;
      a[11] = vg::below(5) + 5 * vg::below(4);
      break;
    }
    case OP_SET_ALPHA: a[0] = vg::coin(); break;
    case OP_SET_CW: a[0] = vg::chance(1, 8) ? vg::pick<int64_t>({0, 1, 12, 24, 48, 128, 255}) : vg::pick<int64_t>({8, 16, 32, 64}); break;
    case OP_ALPHA_FROM_MASK64: colour(a, 3); break;
    case OP_ALPHA_FROM_MASK32: a[0] = colour32(); break;
    case OP_RESIZE_BLIT: {
      // in-range by construction when the canvases allow it (w,h >= 2 in the target, >= 1 in the source)
      if (t.w >= 2 && t.h >= 2 && o.w >= 1 && o.h >= 1) {
        a[2] = vg::range(2, t.w), a[3] = vg::range(2, t.h);
        a[0] = vg::range(0, t.w - a[2]), a[1] = vg::range(0, t.h - a[3]);
        int64_t sw = vg::range(1, o.w), sh = vg::range(1, o.h);
        a[4] = vg::range(0, o.w - sw), a[5] = vg::range(0, o.h - sh);
        a[6] = (a[4] == 0 && vg::chance(1, 4)) ? -1 : sw;
        a[7] = (a[5] == 0 && vg::chance(1, 4)) ? -1 : sh;
      }
      break;
    }
    default: break;
  }
}

static int gen_opcode() {
  // weights: blits and rectangles dominate
  static const std::vector<int> table = [] {
    std::vector<int> t;
    auto add = [&](int op, int wgt) {
      for (int i = 0; i < wgt; i++) t.push_back(op);
    };
    add(OP_WRITE64, 2), add(OP_WRITE32, 1), add(OP_READ, 2), add(OP_CLEAR64, 1), add(OP_CLEAR32, 1), add(OP_FILL64, 4), add(OP_FILL32, 2);
    add(OP_BLIT, 4), add(OP_MASK_BLIT64, 3), add(OP_MASK_BLIT32, 2), add(OP_MASK_DST64, 3), add(OP_MASK_DST32, 2), add(OP_MASK_IMG, 4), add(OP_BLEND, 4);
    add(OP_BLEND_ALPHA, 4), add(OP_CUSTOM32, 2), add(OP_CUSTOM64, 2), add(OP_LINE64, 3), add(OP_LINE32, 1), add(OP_HLINE, 2), add(OP_VLINE, 2), add(OP_TEXT, 3);
    add(OP_REV_H, 1), add(OP_REV_V, 1), add(OP_INVERT, 1), add(OP_SET_ALPHA, 2), add(OP_SET_CW, 2), add(OP_ALPHA_FROM_MASK64, 1), add(OP_ALPHA_FROM_MASK32, 1);
    add(OP_COPY_ASSIGN, 1), add(OP_COPY_CONSTRUCT, 1), add(OP_MOVE_ASSIGN, 1), add(OP_RESIZE_BLIT, 3), add(OP_EQUALS, 1);
    return t;
  }();
  return table[vg::below(table.size())];
}

static Case gen_op1() {
  Single s;
  s.op = gen_opcode();
  Dims t = gen_dims(40), o = gen_dims(40);
  if (s.op == OP_RESIZE_BLIT) {
    t.w = std::max<int64_t>(t.w, 2), t.h = std::max<int64_t>(t.h, 2), o.w = std::max<int64_t>(o.w, 1), o.h = std::max<int64_t>(o.h, 1);
    if (t.cw == 64) t.cw = 32;
    if (o.cw == 64) o.cw = 16;
    if (t.mv > mask_of(t.cw)) t.mv = 0;
    if (o.mv > mask_of(o.cw)) o.mv = 0;
  }
  relate_maxvals(t, o);
  s.t[0] = t.w, s.t[1] = t.h, s.t[2] = t.alpha, s.t[3] = t.cw;
  s.o[0] = o.w, s.o[1] = o.h, s.o[2] = o.alpha, s.o[3] = o.cw;
  s.tmv = t.mv, s.omv = o.mv;
  s.seed = vg::u64();
  std::vector<std::string> strings;
  gen_op_args(s.op, t, o, s.a, strings, true, true);
  if (!strings.empty()) s.text = strings[0];
  ctx().cls(cat("op1:", op_name(s.op)));
  return single_case("op1", s);
}

// ---------------------------------------------------------------- history
// n = [c0: w,h,alpha,cw, c1: w,h,alpha,cw, seed, nops, { op, target, a0..a11 } * nops, (max value of c0, of c1)], s = text blobs
static void run_history(const Case& c) {
  int64_t d0[4] = {c.i(0), c.i(1), c.i(2), c.i(3)}, d1[4] = {c.i(4), c.i(5), c.i(6), c.i(7)};
  uint64_t seed = c.u(8);
  size_t nops = c.u(9);
  size_t base_n = 10 + nops * (2 + kOpArgs);
  if (c.n.size() != base_n && c.n.size() != base_n + 2) throw std::logic_error("history: malformed case");
  uint64_t mv0 = c.n.size() > base_n ? c.u(base_n) : 0, mv1 = c.n.size() > base_n ? c.u(base_n + 1) : 0;
  validate_dims(d0, mv0);
  validate_dims(d1, mv1);
  Canvas cv[2] = {Canvas(d0[0], d0[1], d0[2] != 0, d0[3], mv0, seed >> 3), Canvas(d1[0], d1[1], d1[2] != 0, d1[3], mv1, seed >> 5)};
  if (mv0 || mv1) ctx().cls("history:own-maximum-value");
  fill_content(cv[0], seed);
  fill_content(cv[1], seed ^ 0x5555);
  bool nt = false;
  std::set<int> kinds;
  for (size_t k = 0; k < nops; k++) {
    size_t base = 10 + k * (2 + kOpArgs);
    int op = c.i(base);
    int tgt = c.i(base + 1) & 1;
    if (op < 0 || op >= OP_COUNT) throw std::logic_error("history: bad opcode");
    int64_t a[kOpArgs];
    for (int i = 0; i < kOpArgs; i++) a[i] = c.i(base + 2 + i);
    OpResult r;
    try {
      r = apply_op(op, cv[tgt], cv[1 - tgt], a, c.s);
      if (r.excluded.empty()) check_canvases(cv[tgt], cv[1 - tgt], op, "history");
    } catch (const Fail& f) {
      throw Fail{f.sig, cat("operation #", k, " of ", nops, ": ", f.msg)};
    }
    if (!r.excluded.empty()) ctx().exclude(r.excluded);
    nt |= r.nontrivial;
    kinds.insert(op);
    ctx().cls(cat("history-op:", op_name(op)));
  }
  if (nt && kinds.size() >= 2) ctx().nontrivial_case();
}

static Case gen_history() {
  Case c;
  Dims d[2] = {gen_dims(40), gen_dims(24)};
  relate_maxvals(d[0], d[1]);
  const uint64_t mv0 = d[0].mv, mv1 = d[1].mv;
  for (int k = 0; k < 2; k++) c.I(d[k].w).I(d[k].h).I(d[k].alpha).I(d[k].cw);
  c.N(vg::u64());
  size_t nops = 1 + vg::scaled(24);
  c.N(nops);
  for (size_t k = 0; k < nops; k++) {
    int op = gen_opcode();
    int tgt = vg::below(2);
    int64_t a[kOpArgs];
    gen_op_args(op, d[tgt], d[1 - tgt], a, c.s, vg::chance(1, 3));
    c.I(op).I(tgt);
    for (int i = 0; i < kOpArgs; i++) c.I(a[i]);
    // shadow geometry
    if (op == OP_SET_ALPHA) d[tgt].alpha = a[0] != 0;
    if (op == OP_SET_CW && (a[0] == 8 || a[0] == 16 || a[0] == 32 || a[0] == 64) && d[tgt].cw != a[0]) d[tgt].cw = a[0], d[tgt].mv = 0;
    if (op == OP_COPY_ASSIGN || op == OP_COPY_CONSTRUCT || op == OP_MOVE_ASSIGN) d[tgt] = d[1 - tgt];
  }
  if (mv0 || mv1) c.N(mv0).N(mv1);
  return c;
}

// ---------------------------------------------------------------- clipping invariance
// n = [op, W,H,alpha,cw, oW,oH,oAlpha,oCw, seed, margin, a0..a11, (max value of the target canvases, of the other canvas)], s = [text]
static bool clip_op_ok(int op) {
  switch (op) {
    case OP_FILL64:
    case OP_FILL32:
    case OP_BLIT:
    case OP_MASK_BLIT64:
    case OP_MASK_BLIT32:
    case OP_MASK_DST64:
    case OP_MASK_DST32:
    case OP_MASK_IMG:
    case OP_BLEND:
    case OP_BLEND_ALPHA:
    case OP_CUSTOM32:
    case OP_CUSTOM64:
    case OP_TEXT: return true;
    default: return false;
  }
}
static void run_clip(const Case& c) {
  int op = c.i(0);
  if (!clip_op_ok(op)) throw std::logic_error("clip: operation not in the invariance family");
  int64_t dt[4] = {c.i(1), c.i(2), c.i(3), c.i(4)}, dobj[4] = {c.i(5), c.i(6), c.i(7), c.i(8)};
  uint64_t tmv = c.n.size() > 11 + kOpArgs ? c.u(11 + kOpArgs) : 0, omv = c.n.size() > 11 + kOpArgs ? c.u(12 + kOpArgs) : 0;
  validate_dims(dt, tmv);
  validate_dims(dobj, omv);
  uint64_t seed = c.u(9);
  int64_t m = c.i(10);
  if (m < 0 || m > 16) throw std::logic_error("clip: margin outside the domain");
  int64_t a[kOpArgs];
  for (int i = 0; i < kOpArgs; i++) a[i] = c.i(11 + i);
  if (op == OP_TEXT) a[10] = 0;
  Canvas S(dt[0], dt[1], dt[2] != 0, dt[3], tmv, seed >> 3), B(dt[0] + 2 * m, dt[1] + 2 * m, dt[2] != 0, dt[3], tmv, seed >> 7), O(dobj[0], dobj[1], dobj[2] != 0, dobj[3], omv, seed >> 5);
  fill_content(S, seed);
  fill_content(B, seed + 7);
  fill_content(O, seed + 1);
  for (int64_t y = 0; y < S.m.h; y++) {
    for (int64_t x = 0; x < S.m.w; x++) {
      RGBA p = S.m.get(x, y);
      B.m.set(x + m, y + m, p);
      B.img.write_pixel(x + m, y + m, p.r, p.g, p.b, p.a);
    }
  }
  OpResult r1 = apply_op(op, S, O, a, c.s);
  if (!r1.excluded.empty()) {
    ctx().exclude(r1.excluded);
    return;
  }
  int64_t b[kOpArgs];
  memcpy(b, a, sizeof(b));
  b[0] += m;
  b[1] += m;
  OpResult r2 = apply_op(op, B, O, b, c.s);
  if (!r2.excluded.empty()) {
    ctx().exclude(r2.excluded);
    return;
  }
  std::vector<uint64_t> vs = raw_pixels(S.img), vb = raw_pixels(B.img);
  for (int64_t y = 0; y < S.m.h; y++) {
    for (int64_t x = 0; x < S.m.w; x++) {
      for (int ch = 0; ch < 4; ch++) {
        uint64_t p = vs[static_cast<size_t>(y * S.m.w + x) * 4 + ch], q = vb[static_cast<size_t>((y + m) * B.m.w + (x + m)) * 4 + ch];
        VCHECK(p == q, cat("clip-invariance:", op_name(op)), op_name(op), " on ", describe(S.m), ": pixel (", x, ",", y, ") channel ", ch, " is ", p, " on the small canvas and ", q,
            " when the same drawing is done on a canvas ", m, " larger on every side and cropped");
      }
    }
  }
  if (r1.nontrivial) ctx().nontrivial_case();
  ctx().cls(cat("clip:", op_name(op)));
}
static Case gen_clip() {
  static const int ops[13] = {OP_FILL64, OP_FILL32, OP_BLIT, OP_MASK_BLIT64, OP_MASK_BLIT32, OP_MASK_DST64, OP_MASK_DST32, OP_MASK_IMG, OP_BLEND, OP_BLEND_ALPHA, OP_CUSTOM32, OP_CUSTOM64, OP_TEXT};
  int op = ops[vg::below(13)];
  Dims t = gen_dims(24), o = gen_dims(24);
  relate_maxvals(t, o);
  int64_t a[kOpArgs];
  Case c;
  std::vector<std::string> strings;
  gen_op_args(op, t, o, a, strings, false, vg::chance(1, 3));
  c.I(op).I(t.w).I(t.h).I(t.alpha).I(t.cw).I(o.w).I(o.h).I(o.alpha).I(o.cw).N(vg::u64()).I(vg::range(1, 12));
  for (int i = 0; i < kOpArgs; i++) c.I(a[i]);
  if (t.mv || o.mv) c.N(t.mv).N(o.mv);
  c.S(strings.empty() ? std::string() : strings[0]);
  return c;
}

// ---------------------------------------------------------------- identities
// n = [W,H,alpha,cw,seed,(max value)]
static void run_identities(const Case& c) {
  int64_t d[4] = {c.i(0), c.i(1), c.i(2), c.i(3)};
  uint64_t mv = c.n.size() > 5 ? c.u(5) : 0;
  validate_dims(d, mv);
  Canvas A(d[0], d[1], d[2] != 0, d[3], mv, c.u(4) >> 3);
  fill_content(A, c.u(4));
  if (A.m.mv != A.m.mask()) ctx().cls("identities:own-maximum-value");
  const std::vector<uint64_t> orig = raw_pixels(A.img);
  const phosg::Image orig_img = A.img;
  // "identity" / "deep copy" means the result is the same image: same geometry, same samples, and equal under the library's own
  // operator== (which also sees the maximum sample value, a property of the image that has no accessor)
  auto same = [&](const phosg::Image& im, const char* what, bool by_operator = true) {
    VCHECK(static_cast<int64_t>(im.get_width()) == d[0] && static_cast<int64_t>(im.get_height()) == d[1] && im.get_has_alpha() == (d[2] != 0) && im.get_channel_width() == d[3],
        cat("identity:", what), what, " changed the geometry/format of ", describe(A.m));
    VCHECK(raw_pixels(im) == orig, cat("identity:", what), what, " is not the identity on ", describe(A.m));
    if (by_operator) {
      VCHECK(im == orig_img && !(im != orig_img) && orig_img == im, cat("identity:", what), what, " on ", describe(A.m), ": geometry and samples are those of the original, but operator== says the images differ");
      std::string dmv = max_value_diff(im, A.m);
      VCHECK(dmv.empty(), cat("identity:", what), what, ": ", dmv);
    }
  };
  same(A.img, "making a copy");
  phosg::Image w = A.img;
  w.reverse_horizontal();
  w.reverse_horizontal();
  same(w, "reverse_horizontal twice");
  w.reverse_vertical();
  w.reverse_vertical();
  same(w, "reverse_vertical twice");
  w.invert();
  w.invert();
  same(w, "invert twice");
  if (!d[2]) {
    w.set_has_alpha(true);
    VCHECK(w.get_has_alpha(), "identity:set_has_alpha", "set_has_alpha(true) did not add alpha");
    w.set_has_alpha(false);
    same(w, "add-then-drop alpha");
  }
  for (int64_t wider : {16, 32, 64}) {
    if (wider <= d[3]) continue;
    w.set_channel_width(wider);
    VCHECK(w.get_channel_width() == wider, "identity:set_channel_width", "set_channel_width(", wider, ") did not widen");
    w.set_channel_width(d[3]);
    // set_channel_width to another width makes the all-ones value of that width the maximum value (the model says so too), so for a
    // canvas with a maximum value of its own the round trip restores the samples but not that value: pixelwise only
    if (A.m.mv != A.m.mask()) ctx().exclude("widen-then-narrow on a canvas with its own maximum value: compared pixelwise, not by operator== (set_channel_width resets the maximum value by design)");
    same(w, "widen-then-narrow", A.m.mv == A.m.mask());
    if (A.m.mv != A.m.mask()) break; // w now has the all-ones maximum value: the remaining rounds would not start from the original
  }
  // copies are deep
  {
    phosg::Image src = A.img;
    phosg::Image cc(src);
    phosg::Image ca(3, 2, !d[2], d[3] == 8 ? 16 : 8);
    ca = src;
    VCHECK(cc == src && ca == src && !(cc != src), "copy:equal", "a fresh copy does not compare equal to its source");
    if (src.get_data_size()) {
      VCHECK(cc.get_data() != src.get_data() && ca.get_data() != src.get_data() && cc.get_data() != ca.get_data(), "copy:shares-buffer", "a copy shares the pixel buffer of its source");
    }
    src.invert();
    if (d[0] > 0 && d[1] > 0) src.write_pixel(0, 0, 1, 2, 3, 4);
    src.reverse_horizontal();
    same(cc, "copy-constructed image after mutating the source");
    same(ca, "copy-assigned image after mutating the source");
    if (d[0] > 0 && d[1] > 0) {
      cc.clear(9, 9, 9, 9);
      same(ca, "copy-assigned image after mutating another copy");
    }
    phosg::Image mv(std::move(ca));
    same(mv, "move-constructed image");
    phosg::Image mv2;
    mv2 = std::move(mv);
    same(mv2, "move-assigned image");
  }
  if (d[0] > 1 || d[1] > 1) ctx().nontrivial_case();
}
static Case gen_identities() {
  Dims t = gen_dims(40);
  Case c;
  c.I(t.w).I(t.h).I(t.alpha).I(t.cw).N(vg::u64());
  if (t.mv) c.N(t.mv);
  return c;
}
static void enum_identities(Enum& e) {
  int N = scope_n(e.thorough());
  uint64_t idx = 0;
  for (int W = 0; W <= N; W++)
    for (int H = 0; H <= N; H++)
      for (int fmt = 0; fmt < 8; fmt++) {
        if (!e.mine(idx++)) continue;
        e.exec(Case(e.sc.name).I(W).I(H).I(kFmt[fmt][0]).I(kFmt[fmt][1]).N(idx));
        if (e.stop) return;
        for (unsigned k = 0; k < 4; k++) { // the same canvas with a maximum value of its own, through each construction route
          e.exec(Case(e.sc.name).I(W).I(H).I(kFmt[fmt][0]).I(kFmt[fmt][1]).N(idx * 32 + k * 8).N(alt_maxval(kFmt[fmt][1], k)));
          if (e.stop) return;
        }
      }
  e.complete(cat("identities on every canvas 0..", N, " x 0..", N, " in all 8 formats, with the all-ones maximum value and 4 others"));
}

// ---------------------------------------------------------------- wide: whole-image transforms on very wide, very short canvases
// "For any canvas ... the whole-image transforms never throw, never touch memory outside the pixel buffer": the size of a canvas is
// an argument like any other, and a canvas of a few tens of megabytes whose rows are long is an ordinary canvas. The operation runs on a
// thread with an explicit stack of the glibc default size (8 MiB) or of 512 KiB (the default of secondary threads on other
// platforms): what a transform needs besides the pixel buffer must not grow with the canvas. The model is the ordinary Model applied
// to a sub-sampled canvas: a set of columns closed under x -> W-1-x (both ends, the middle, a regular grid, pseudo-random ones) with all
// rows - every whole-image transform commutes with that sub-sampling - and only those pixels are compared.
// n = [W, H, alpha, cw, kind, stack KiB, seed]
enum WideKind { WK_REV_H = 0, WK_REV_V, WK_INVERT, WK_SET_ALPHA, WK_COPY, WK_SET_CW, WK_TWICE, WK_COUNT };
static const char* wide_kind_name(int k) {
  static const char* n[] = {"reverse_horizontal", "reverse_vertical", "invert", "set_has_alpha", "copy", "set_channel_width", "mirror-twice"};
  return (k >= 0 && k < WK_COUNT) ? n[k] : "?";
}
static inline uint64_t wide_value(uint64_t seed, int64_t x, int64_t y, unsigned ch) {
  uint64_t v = (static_cast<uint64_t>(x) * 4 + ch) * 0x9E3779B97F4A7C15ULL + (static_cast<uint64_t>(y) + seed) * 0xC2B2AE3D27D4EB4FULL;
  return v ^ (v >> 29);
}
static std::vector<int64_t> wide_columns(int64_t W, uint64_t seed) {
  std::set<int64_t> xs;
  auto add = [&](int64_t x) {
    if (x < 0 || x >= W) return;
    xs.insert(x);
    xs.insert(W - 1 - x);
  };
  for (int64_t k = 0; k < 16; k++) add(k), add(W / 2 - 8 + k);
  for (int64_t k = 1; k < 64; k++) add(W / 64 * k), add(W / 64 * k - 1);
  Rng r(seed);
  for (int k = 0; k < 300 && W > 0; k++) add(static_cast<int64_t>(r.next() % static_cast<uint64_t>(W)));
  return std::vector<int64_t>(xs.begin(), xs.end());
}
static void wide_compare(const phosg::Image& img, const Model& sub, const std::vector<int64_t>& X, int64_t W, int kind, const std::string& step) {
  std::string sig = cat("wide:", wide_kind_name(kind));
  VCHECK(static_cast<int64_t>(img.get_width()) == W && static_cast<int64_t>(img.get_height()) == sub.h && img.get_has_alpha() == sub.alpha && img.get_channel_width() == sub.cw, sig, step, ": header is ",
      img.get_width(), "x", img.get_height(), " alpha=", img.get_has_alpha(), " cw=", static_cast<int>(img.get_channel_width()), ", model says ", W, "x", sub.h, " alpha=", sub.alpha, " cw=", sub.cw);
  size_t nc = sub.alpha ? 4 : 3, bw = sub.cw / 8;
  VCHECK(img.get_data_size() == static_cast<size_t>(W) * sub.h * nc * bw, sig, step, ": get_data_size() is ", img.get_data_size());
  const uint8_t* d = static_cast<const uint8_t*>(img.get_data());
  for (int64_t y = 0; y < sub.h; y++) {
    for (size_t k = 0; k < X.size(); k++) {
      for (size_t ch = 0; ch < nc; ch++) {
        uint64_t got = 0;
        memcpy(&got, d + ((static_cast<size_t>(y) * W + X[k]) * nc + ch) * bw, bw);
        uint64_t want = sub.v[(static_cast<size_t>(y) * X.size() + k) * 4 + ch];
        VCHECK(got == want, sig, step, " on a ", W, "x", sub.h, sub.alpha ? " alpha" : " opaque", " cw=", sub.cw, " canvas: pixel (", X[k], ",", y, ") channel ", ch, " is 0x", std::hex, got, ", model says 0x", want);
      }
    }
  }
}
struct WideJob {
  int64_t W, H;
  bool alpha;
  unsigned cw;
  int kind;
  uint64_t seed;
  std::exception_ptr err;
};
static void wide_body(WideJob& j) {
  const int64_t W = j.W, H = j.H;
  phosg::Image img(W, H, j.alpha, j.cw);
  const std::vector<int64_t> X = wide_columns(W, j.seed);
  Model sub(X.size(), H, j.alpha, j.cw);
  {
    size_t nc = j.alpha ? 4 : 3, bw = j.cw / 8;
    uint64_t M = mask_of(j.cw);
    uint8_t* d = static_cast<uint8_t*>(img.get_data());
    for (int64_t y = 0; y < H; y++) {
      for (int64_t x = 0; x < W; x++) {
        for (size_t ch = 0; ch < nc; ch++) {
          uint64_t v = wide_value(j.seed, x, y, ch) & M;
          memcpy(d + ((static_cast<size_t>(y) * W + x) * nc + ch) * bw, &v, bw);
        }
      }
      for (size_t k = 0; k < X.size(); k++) {
        for (size_t ch = 0; ch < nc; ch++) sub.v[(static_cast<size_t>(y) * X.size() + k) * 4 + ch] = wide_value(j.seed, X[k], y, ch) & M;
      }
    }
  }
  wide_compare(img, sub, X, W, j.kind, "freshly filled canvas");
  std::string ewhat;
  auto step = [&](const char* what, const std::function<void()>& real, const std::function<void()>& model) {
    int e = run_catching(real, &ewhat);
    VCHECK(e == EXC_NONE, cat("wide-exception:", wide_kind_name(j.kind)), what, " on a ", W, "x", H, " canvas raised ", exc_name(e), " (", ewhat, ")");
    model();
    wide_compare(img, sub, X, W, j.kind, what);
  };
  switch (j.kind) {
    case WK_REV_H: step("reverse_horizontal", [&] { img.reverse_horizontal(); }, [&] { m_reverse_horizontal(sub); }); break;
    case WK_REV_V: step("reverse_vertical", [&] { img.reverse_vertical(); }, [&] { m_reverse_vertical(sub); }); break;
    case WK_INVERT: step("invert", [&] { img.invert(); }, [&] { m_invert(sub); }); break;
    case WK_SET_ALPHA:
      step("set_has_alpha (toggle)", [&] { img.set_has_alpha(!j.alpha); }, [&] { m_set_has_alpha(sub, !j.alpha); });
      step("set_has_alpha (back)", [&] { img.set_has_alpha(j.alpha); }, [&] { m_set_has_alpha(sub, j.alpha); });
      break;
    case WK_SET_CW: {
      unsigned other = j.cw == 64 ? 32 : j.cw * 2;
      step("set_channel_width (other width)", [&] { img.set_channel_width(other); }, [&] { m_set_channel_width(sub, other); });
      step("set_channel_width (back)", [&] { img.set_channel_width(j.cw); }, [&] { m_set_channel_width(sub, j.cw); });
      break;
    }
    case WK_TWICE: {
      const Model orig = sub;
      step("reverse_vertical", [&] { img.reverse_vertical(); }, [&] { m_reverse_vertical(sub); });
      step("reverse_vertical twice", [&] { img.reverse_vertical(); }, [&] { sub = orig; });
      step("reverse_horizontal", [&] { img.reverse_horizontal(); }, [&] { m_reverse_horizontal(sub); });
      step("reverse_horizontal twice", [&] { img.reverse_horizontal(); }, [&] { sub = orig; });
      break;
    }
    case WK_COPY: {
      const Model orig = sub;
      std::string sig = cat("wide:", wide_kind_name(j.kind));
      {
        phosg::Image cc(img);
        wide_compare(cc, orig, X, W, j.kind, "copy-constructed image");
        VCHECK(cc.get_data() != img.get_data(), sig, "a copy shares the pixel buffer of its source");
        step("invert of the source of a copy", [&] { img.invert(); }, [&] { m_invert(sub); });
        wide_compare(cc, orig, X, W, j.kind, "copy-constructed image after mutating the source");
      }
      {
        phosg::Image ca(2, 2, !j.alpha, j.cw == 8 ? 16 : 8);
        ca = img;
        wide_compare(ca, sub, X, W, j.kind, "copy-assigned image");
        VCHECK(ca.get_data() != img.get_data(), sig, "a copy shares the pixel buffer of its source");
        phosg::Image mv(std::move(ca));
        wide_compare(mv, sub, X, W, j.kind, "move-constructed image");
      }
      break;
    }
    default: throw std::logic_error("wide: unknown kind");
  }
}
static void* wide_thread(void* p) {
  WideJob* j = static_cast<WideJob*>(p);
  try {
    wide_body(*j);
  } catch (...) {
    j->err = std::current_exception();
  }
  return nullptr;
}
static void run_wide(const Case& c) {
  WideJob j;
  j.W = c.i(0), j.H = c.i(1), j.alpha = c.i(2) != 0, j.cw = static_cast<unsigned>(c.u(3)), j.kind = static_cast<int>(c.i(4));
  int64_t stack_kib = c.i(5);
  j.seed = c.u(6);
  if (j.cw != 8 && j.cw != 16 && j.cw != 32 && j.cw != 64) throw std::logic_error("wide: channel width outside the domain");
  if (j.W < 0 || j.H < 0 || j.H > 16 || j.kind < 0 || j.kind >= WK_COUNT) throw std::logic_error("wide: case outside the domain");
  if (static_cast<i128>(j.W) * j.H * 4 * (j.cw / 8) > (48LL << 20)) throw std::logic_error("wide: canvas above 48 MiB is outside the domain (cost)");
  if (stack_kib < 256 || stack_kib > 65536) throw std::logic_error("wide: stack size outside the domain");
  pthread_attr_t at;
  pthread_attr_init(&at);
  if (pthread_attr_setstacksize(&at, static_cast<size_t>(stack_kib) * 1024) != 0) throw std::logic_error("wide: pthread_attr_setstacksize failed");
  pthread_t th;
  int rc = pthread_create(&th, &at, wide_thread, &j);
  pthread_attr_destroy(&at);
  if (rc != 0) throw std::logic_error("wide: pthread_create failed");
  pthread_join(th, nullptr);
  if (j.err) std::rethrow_exception(j.err);
  ctx().cls(cat("wide:", wide_kind_name(j.kind), j.alpha ? ":alpha" : ":opaque", ":cw", j.cw, ":stack", stack_kib, "KiB"));
  ctx().nontrivial(mix(mix(mix(j.W, j.H), mix(j.alpha, j.cw)), mix(j.kind, stack_kib)));
}
// {W, H, alpha, cw, stack KiB}: rows of 8.8 .. 9.6 MB on an 8 MiB stack, rows of 560 .. 720 KB on a 512 KiB stack
static const int64_t kWide[][5] = {
    {3000000, 2, 0, 8, 8192}, {2200000, 1, 1, 8, 8192}, {300000, 2, 1, 64, 8192}, {800000, 3, 0, 32, 8192}, {1100000, 2, 1, 16, 8192},
    {200000, 3, 0, 8, 512}, {20000, 4, 1, 64, 512}, {150000, 2, 1, 8, 512}, {60000, 5, 0, 32, 512}, {70000, 1, 1, 16, 512}};
static void enum_wide(Enum& e) {
  uint64_t idx = 0;
  size_t ngeo = sizeof(kWide) / sizeof(kWide[0]);
  for (size_t g = 0; g < ngeo; g++) {
    for (int kind = 0; kind < WK_COUNT; kind++) {
      if (!e.mine(idx++)) continue;
      e.exec(Case(e.sc.name).I(kWide[g][0]).I(kWide[g][1]).I(kWide[g][2]).I(kWide[g][3]).I(kind).I(kWide[g][4]).N(g * 16 + kind));
      if (e.stop) return;
    }
  }
  e.complete(cat("mirror both ways, mirror twice, invert, set_has_alpha, set_channel_width, copies on ", ngeo, " very wide canvases of 1..5 rows (rows of 8.8-9.6 MB on a thread with an 8 MiB stack, rows of 0.5-0.7 MB on a 512 KiB stack), sparse comparison with the model"));
}

int main(int argc, char** argv) {
  std::vector<SubCheck> checks;
  auto add_enum = [&](const char* name, Expander ex, std::function<void(Enum&)> en) {
    SubCheck s;
    s.name = name;
    s.run = make_run(ex);
    s.enumerate = en;
    checks.push_back(s);
  };
  {
    SubCheck s;
    s.name = "op1";
    s.run = [](const Case& c) { run_single(decode_single(c)); };
    s.gen = gen_op1;
    s.quick_cases = 200000;
    s.thorough_cases = 2000000;
    checks.push_back(s);
  }
  add_enum("enum_pixel", expand_pixel, enum_pixel);
  add_enum("enum_fill", expand_fill, enum_fill);
  add_enum("enum_blit", expand_blit, enum_blit);
  add_enum("enum_lines", expand_lines, enum_lines);
  add_enum("enum_text", expand_text, enum_text);
  add_enum("enum_textlen", expand_textlen, enum_textlen);
  add_enum("enum_transform", expand_transform, enum_transform);
  {
    SubCheck s;
    s.name = "history";
    s.run = run_history;
    s.gen = gen_history;
    s.quick_cases = 20000;
    s.thorough_cases = 200000;
    checks.push_back(s);
  }
  {
    SubCheck s;
    s.name = "clip";
    s.run = run_clip;
    s.gen = gen_clip;
    s.quick_cases = 60000;
    s.thorough_cases = 600000;
    checks.push_back(s);
  }
  {
    SubCheck s;
    s.name = "identities";
    s.run = run_identities;
    s.gen = gen_identities;
    s.enumerate = enum_identities;
    s.quick_cases = 2000;
    s.thorough_cases = 60000;
    checks.push_back(s);
  }
  {
    SubCheck s;
    s.name = "wide";
    s.run = run_wide;
    s.enumerate = enum_wide;
    checks.push_back(s);
  }
  return main_(argc, argv, checks);
}
