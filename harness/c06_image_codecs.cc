// C06 - image codecs: save->load identity, output files valid per independent decoders, every
// supported input variant decodes to the format-defined pixels, truncated files are rejected (or
// decode identically) without crash / leak / out-of-bounds access.
//
// subchecks: roundtrip (freshly drawn images, incl. pixel content with repeated / nearly repeated rows and few-level noise, raster sizes at or
// just under a power of two), idatlen (images found by search whose reference-compressed scanline data is an exact multiple of 4..32 KiB long), derived (images
// produced by copy/move assignment or construction, set_channel_width, set_has_alpha, mirroring - "saving ANY image"),
// large (sampled images beyond the enumerated 1..64 scope, up to 256 per side, mostly incompressible content, sizes next to
// multiples of 32 KiB), variant (every supported input container variant; the LOADED image is an image too: it is compared
// with an identically constructed one and goes through the save-side oracle), each with optional truncation of the files.
//
// Engine note: DESIGN.md plans Hypothesis + Python codecs + a serve shim. The same oracle is
// implemented here in C++ (harness/c06/codecs.hh: encoders and decoders written from the format
// specifications, own CRC-32, zlib only for inflate - with the window the stream's own header declares - and, in `idatlen`, as the reference compressor that steers the search for images, never as an oracle) because it removes the pipe round trip from
// the ~10^6 prefix loads per run and lets ASan see the loads in-process. A libFuzzer target
// (fuzz/c06_truncate.cc) drives the same code with coverage guidance.
#include <memory>

#include <phosg/Image.hh>

#include "c06/codecs.hh"
#include "verif.hh"

using namespace verif;
using namespace c06;

static MemFile& memfile() {
  static MemFile* m = new MemFile();
  return *m;
}

static const char* fmt_name(phosg::Image::Format f) {
  switch (f) {
    case phosg::Image::Format::COLOR_PPM: return "ppm";
    case phosg::Image::Format::WINDOWS_BITMAP: return "bmp";
    case phosg::Image::Format::PNG: return "png";
    default: return "gray-ppm";
  }
}

// Loads the memfile's current contents, with allocation accounting. A discrepancy is only
// reported when it repeats (the first call of a libc facility may allocate once).
static Loaded load_checked(int via, const std::string& what, const phosg::Image* same_as = nullptr) {
  Loaded r = load_current(memfile(), via, same_as);
  bool bad = r.ok ? (r.held_after_load != r.expected_held || r.held_after_destroy != 0) : (r.held_after_load != 0);
  if (bad && __sanitizer_get_current_allocated_bytes) {
    Loaded r2 = load_current(memfile(), via);
    Loaded r3 = load_current(memfile(), via);
    bool bad3 = r3.ok ? (r3.held_after_load != r3.expected_held || r3.held_after_destroy != 0) : (r3.held_after_load != 0);
    (void)r2;
    if (bad3) {
      if (r3.ok) {
        VFAIL("leak:successful-load", what, ": after a successful load ", r3.held_after_load, " bytes are held (expected sizeof(Image)+data = ", r3.expected_held,
            "), after destroying the image ", r3.held_after_destroy, " bytes remain");
      } else {
        VFAIL("leak:exception-path", what, ": the load threw ", r3.exc_type, " (", r3.exc_what, ") and left ", r3.held_after_load, " bytes allocated");
      }
    }
  }
  return r;
}

// every listed prefix of `bytes` either throws a std::exception or decodes to `full`
static void check_prefixes(const std::string& bytes, const std::vector<size_t>& lens, const Pix& full, int via, const std::string& what) {
  MemFile& mf = memfile();
  mf.set(bytes.data(), bytes.size());
  // descending order: each step only shrinks the file
  for (size_t k = lens.size(); k-- > 0;) {
    size_t n = lens[k];
    mf.cut(n);
    Loaded r = load_checked(via, cat(what, " cut at ", n, "/", bytes.size()));
    if (r.ok) {
      VCHECK(r.pix.same_pixels(full), "truncated-decodes-differently", what, " cut at ", n, "/", bytes.size(), " loads without an exception but differs: ", r.pix.first_difference(full));
      ctx().cls("prefix:decoded-identically");
    } else {
      VCHECK(r.std_exception, "truncated-non-std-exception", what, " cut at ", n, "/", bytes.size(), " threw something that is not a std::exception");
    }
  }
  ctx().count(lens.size());
  ctx().cls("prefix-loads", lens.size());
}

static void lsan_check(const std::string& what) {
  if (__lsan_do_recoverable_leak_check) {
    VCHECK(__lsan_do_recoverable_leak_check() == 0, "leak:lsan", "LeakSanitizer reports unreachable memory after ", what);
  }
}

static std::string save_via(const phosg::Image& img, phosg::Image::Format f, int how) {
  if (how == 0) return img.save(f);
  MemFile& mf = memfile();
  if (how == 1) {
    FILE* fp = mf.open_write();
    try {
      img.save(fp, f);
    } catch (...) {
      fclose(fp);
      throw;
    }
    fclose(fp);
  } else if (how == 2) {
    mf.cut(0);
    img.save(mf.path().c_str(), f);
  } else {
    mf.cut(0);
    img.save(mf.path(), f);
  }
  return mf.contents();
}

static void check_saved(const phosg::Image& img, const Pix& pix, int via, int save_how, bool trunc, size_t small_limit, const std::string& tag, uint64_t expect_maxval = 0);

// ---------------------------------------------------------------- roundtrip
// n = [w, h, alpha, cw, style, seed, flags]; flags: bit0 truncate saved files, bits1-2 load entry point, bits3-4 save entry point
static void run_roundtrip_upto(const Case& c, size_t max_side) {
  size_t w = c.u(0), h = c.u(1);
  bool alpha = c.u(2) != 0;
  unsigned cw = c.u(3);
  unsigned style = c.u(4);
  uint64_t seed = c.u(5);
  uint64_t flags = c.u(6);
  if (w < 1 || w > max_side || h < 1 || h > max_side || (cw != 8 && cw != 16 && cw != 32 && cw != 64)) throw std::logic_error("roundtrip: case outside the domain");
  int via = (flags >> 1) & 3;
  if (via == 3) via = 0;
  int save_how = (flags >> 3) & 3;
  bool trunc = flags & 1;
  size_t small_limit = ctx().thorough() ? 2048 : 1024;

  Pix pix = make_pix(w, h, alpha, cw, style, seed);
  phosg::Image img = to_image(pix);
  {
    Pix back = from_image(img);
    VCHECK(back.same_pixels(pix), "setup:write_pixel-then-raw-buffer", "image built with write_pixel does not hold the pixels: ", back.first_difference(pix));
  }
  if ((w % 4) || alpha || cw > 8) ctx().nontrivial_case();
  const char* sc = max_side > 64 ? "large" : "roundtrip";
  ctx().cls(cat(sc, ":cw", cw, alpha ? ":alpha" : ":opaque"));
  ctx().cls(cat(sc, ":pixel-style-", style % kPixStyles));
  {
    // raster size w*h*channels at or just under a power of two (closer than one byte per row: the scanline data, one filter byte per
    // row more, is then above it) - where "how much data is there" decisions of an encoder (buffer / window / block sizing) flip
    size_t px = w * h * (alpha ? 4 : 3), p2 = 1;
    while (p2 < px) p2 *= 2;
    if (cw == 8 && p2 >= 256 && p2 - px < h) ctx().cls(cat(sc, ":raster-within-height-bytes-under-2^k"));
  }
  if (max_side > 64) {
    // distance of the scanline data size h*(1+w*channels) (what a PNG encoder hands to deflate) from a multiple of 32 KiB
    size_t raw = h * (1 + w * (alpha ? 4 : 3)), d = raw % 32768;
    if (d > 16384) d = 32768 - d;
    ctx().cls(raw < 32768 - 512 ? "large:scanline-data<32K" : d <= 512 ? "large:scanline-data-within-512-of-k*32K" : "large:scanline-data-elsewhere");
  }
  std::string tag = cat(w, "x", h, alpha ? " alpha" : "", " cw=", cw);
  check_saved(img, pix, via, save_how, trunc, small_limit, tag);
}
static void run_roundtrip(const Case& c) { run_roundtrip_upto(c, 64); }
static void run_large(const Case& c) { run_roundtrip_upto(c, 256); }

// The save-side oracle for one image `img` that holds the pixels `pix`: PPM and BMP save->load identity, PPM/BMP/PNG bytes
// read back by the independent decoders, save overloads byte-identical, wide-channel BMP/PNG and grayscale saves throw,
// optionally every (listed) prefix of the saved files.
// expect_maxval: the sample range of the image (0 = the full range of the channel width, which is what every constructed image has;
// an image loaded from a Netpbm file keeps the file's MAXVAL). The saved PPM must declare exactly that range - a larger one would
// change the sample width of the file, a smaller one would make samples exceed it.
static void check_saved(const phosg::Image& img, const Pix& pix, int via, int save_how, bool trunc, size_t small_limit, const std::string& tag, uint64_t expect_maxval) {
  size_t w = pix.w, h = pix.h;
  bool alpha = pix.alpha;
  unsigned cw = pix.cw;
  MemFile& mf = memfile();
  if (!expect_maxval) expect_maxval = mask_of(cw);
  bool full_range = expect_maxval == mask_of(cw);

  // --- colour PPM (P6 / P7 RGB_ALPHA), any channel width
  {
    std::string bytes = img.save(phosg::Image::Format::COLOR_PPM);
    if (save_how) {
      std::string b2 = save_via(img, phosg::Image::Format::COLOR_PPM, save_how);
      VCHECK(b2 == bytes, "save-overloads-differ:ppm", "save() to a string and save() to a file produce different bytes for ", tag);
    }
    PnmInfo info;
    try {
      info = decode_pnm(bytes);
    } catch (const DecodeError& e) {
      VFAIL("ppm-invalid", "independent P6/P7 reader rejects the saved file of ", tag, ": ", e.what());
    }
    VCHECK(info.pix.w == w && info.pix.h == h && info.pix.alpha == alpha && info.maxval == expect_maxval, "ppm-header",
        "saved PPM header of ", tag, " says ", info.pix.w, "x", info.pix.h, " alpha=", info.pix.alpha, " maxval=", info.maxval, ", the image's sample range is ", expect_maxval);
    if (cw == 8) {
      VCHECK(info.samples_decoded && info.pix.same_pixels(pix), "ppm-pixels", "independent reader of the saved 8-bit PPM of ", tag, ": ", info.pix.first_difference(pix));
    }
    mf.set(bytes.data(), bytes.size());
    Loaded r = load_checked(via, "saved PPM of " + tag, &img);
    VCHECK(r.ok, "ppm-roundtrip:load-throws", "loading the saved PPM of ", tag, " threw ", r.exc_type, ": ", r.exc_what);
    VCHECK(r.pix.same_pixels(pix), cat("ppm-roundtrip:cw", cw), "save(COLOR_PPM)->load of ", tag, ": ", r.pix.first_difference(pix));
    VCHECK(r.equal == 1 && r.equal_rev == 1, "ppm-roundtrip:operator==", "save(COLOR_PPM)->load of ", tag, ": same geometry and samples, but operator==/operator!= say the reloaded image differs from the saved one");
    if (trunc) {
      FileSpec fs;
      fs.bytes = bytes;
      fs.header_len = bytes.size() - w * h * (alpha ? 4 : 3) * (cw / 8);
      for (size_t y = 0; y < h; y++) fs.row_starts.push_back(fs.header_len + y * w * (alpha ? 4 : 3) * (cw / 8));
      check_prefixes(bytes, prefix_lengths(fs, small_limit), pix, via, "saved PPM of " + tag);
    }
  }

  // --- BMP and PNG: 8-bit channels only
  for (auto f : {phosg::Image::Format::WINDOWS_BITMAP, phosg::Image::Format::PNG}) {
    std::string bytes;
    bool threw = false;
    std::string exc;
    try {
      bytes = save_via(img, f, save_how);
    } catch (const std::runtime_error& e) {
      threw = true;
      exc = e.what();
    }
    if (cw != 8) {
      // BMP is stated for 8-bit channels only and PNG for no particular width: whether an image with wider channels is refused (as in
      // /repo) or exported is not part of the statement. Neither outcome is judged here (the in-harness decoders read 8-bit files).
      ctx().cls(cat(threw ? "wide-save-refused:" : "wide-save-exported:", fmt_name(f)));
      continue;
    }
    if (!full_range) {
      // 8-bit samples with a declared range below 255 (loaded from a Netpbm file with a smaller MAXVAL): BMP and PNG have no way
      // to say so, and whether such an image is rescaled on export is left open by the statement
      ctx().cls("bmp/png-skipped:sample-range-below-255");
      continue;
    }
    VCHECK(!threw, cat("save-throws:", fmt_name(f)), "saving ", tag, " as ", fmt_name(f), " threw: ", exc);
    if (save_how) {
      VCHECK(bytes == img.save(f), cat("save-overloads-differ:", fmt_name(f)), "save() to a string and save() to a file produce different bytes for ", tag);
    }
    Pix dec;
    PngInfo pi;
    try {
      dec = (f == phosg::Image::Format::PNG) ? decode_png(bytes, &pi) : decode_bmp(bytes);
    } catch (const DecodeError& e) {
      VFAIL(cat(fmt_name(f), "-invalid"), "independent decoder rejects the saved ", fmt_name(f), " of ", tag, ": ", e.what());
    }
    VCHECK(dec.same_pixels(pix), cat(fmt_name(f), "-pixels"), "independent decoder of the saved ", fmt_name(f), " of ", tag, ": ", dec.first_difference(pix));
    if (f == phosg::Image::Format::PNG) {
      if (pi.idat_bytes % 4096 == 0) ctx().cls(cat("png:idat-data-length-multiple-of-", pi.idat_bytes % 32768 == 0 ? 32768 : pi.idat_bytes % 16384 == 0 ? 16384 : pi.idat_bytes % 8192 == 0 ? 8192 : 4096));
      if (pi.idat_chunks > 1) ctx().cls("png:several-IDAT-chunks");
      if (pi.window_bits < 15) ctx().cls("png:declared-window-below-32K");
    }
    if (f == phosg::Image::Format::WINDOWS_BITMAP) {
      mf.set(bytes.data(), bytes.size());
      Loaded r = load_checked(via, "saved BMP of " + tag, &img);
      VCHECK(r.ok, "bmp-roundtrip:load-throws", "loading the saved BMP of ", tag, " threw ", r.exc_type, ": ", r.exc_what);
      VCHECK(r.pix.same_pixels(pix), "bmp-roundtrip", "save(WINDOWS_BITMAP)->load of ", tag, ": ", r.pix.first_difference(pix));
      VCHECK(r.equal == 1 && r.equal_rev == 1, "bmp-roundtrip:operator==", "save(WINDOWS_BITMAP)->load of ", tag, ": same geometry and samples, but operator==/operator!= say the reloaded image differs from the saved one");
      if (trunc) {
        FileSpec fs;
        fs.bytes = bytes;
        size_t stride = ((w * (alpha ? 32 : 24) + 31) / 32) * 4;
        fs.header_len = bytes.size() - stride * h;
        for (size_t y = 0; y < h; y++) fs.row_starts.push_back(fs.header_len + y * stride);
        check_prefixes(bytes, prefix_lengths(fs, small_limit), pix, via, "saved BMP of " + tag);
      }
    }
  }

  // --- grayscale output is documented as unsupported
  {
    bool threw = false;
    try {
      img.save(phosg::Image::Format::GRAYSCALE_PPM);
    } catch (const std::runtime_error&) {
      threw = true;
    }
    // (/repo refuses to save GRAYSCALE_PPM; the statement says nothing about that format: refused or written, counted only)
    ctx().cls(threw ? "gray-save-refused" : "gray-save-written");
  }
  if (trunc) lsan_check("round trip of " + tag);
}

static Case gen_roundtrip() {
  Case c;
  size_t w = vg::chance(1, 3) ? vg::range(1, 9) : vg::range(1, 64);
  size_t h = vg::chance(1, 3) ? vg::range(1, 9) : vg::range(1, 64);
  bool alpha = vg::coin();
  unsigned cw = vg::pick<unsigned>({8, 8, 8, 16, 32, 64});
  unsigned style = vg::pick<unsigned>({0, 0, 0, 1, 2, 3, 4, 5, 5, 6, 7, 8});
  uint64_t seed = vg::u64();
  if (vg::chance(1, 6)) {
    // 8-bit image whose raster size w*h*channels is a power of two 2^b (or as close under it as the row length allows), low-entropy or
    // vertically redundant content (so that the compressor has far matches to use): width first, then b, then the height
    cw = 8;
    w = vg::chance(1, 2) ? vg::range(1, 8) : vg::range(1, 64);
    size_t row = w * (alpha ? 4 : 3), bmax = 0;
    while ((2ULL << bmax) <= row * 64) bmax++;
    size_t b = vg::chance(1, 2) ? bmax : vg::range(std::min<size_t>(8, bmax), bmax);
    h = std::max<size_t>(1, (size_t(1) << b) / row);
    style = vg::pick<unsigned>({8, 8, 8, 8, 5, 7, 4});
  }
  size_t approx = w * h * (alpha ? 4 : 3) * (cw / 8);
  uint64_t flags = (approx <= 600 ? vg::chance(1, 2) : vg::chance(1, 12)) ? 1 : 0;
  flags |= vg::below(3) << 1;
  flags |= vg::below(4) << 3;
  c.N(w).N(h).N(alpha).N(cw).N(style).N(seed).N(flags);
  return c;
}

static void enum_roundtrip(Enum& e) {
  // every width 1..64 (all residues mod 4) x a set of heights x alpha x channel width
  std::vector<size_t> heights = e.thorough() ? std::vector<size_t>{1, 2, 3, 4, 5, 8, 13, 31, 32, 33, 63, 64} : std::vector<size_t>{1, 2, 7};
  uint64_t idx = 0;
  for (size_t w = 1; w <= 64 && !e.stop; w++) {
    for (size_t h : heights) {
      for (int alpha = 0; alpha < 2; alpha++) {
        for (unsigned cw : {8u, 16u, 32u, 64u}) {
          idx++;
          if (!e.mine(idx)) continue;
          size_t approx = w * h * (alpha ? 4 : 3) * (cw / 8);
          uint64_t flags = (approx <= (e.thorough() ? 2000u : 160u)) ? 1 : 0;
          flags |= (idx % 3) << 1;
          flags |= (idx % 4) << 3;
          // idx runs through the 8 (alpha, cw) combinations innermost: 3*idx + idx/8 gives each of them every pixel style in turn
          e.exec(Case(e.sc.name).N(w).N(h).N(alpha).N(cw).N((idx * 3 + idx / 8) % 8).N(idx * 77 + 1).N(flags));
          if (e.stop) return;
        }
      }
    }
  }
  // every 8-bit (width, alpha) with the tallest height <= 64 that puts the raster size w*h*channels at or just under a power of two, for the
  // widths where that is closer than one byte per row (the scanline data is then above the power of two), few-level noise
  for (size_t w = 1; w <= 64 && !e.stop; w++) {
    for (int alpha = 0; alpha < 2; alpha++) {
      size_t row = w * (alpha ? 4 : 3);
      for (size_t p2 = 256; p2 <= 16384; p2 *= 2) {
        size_t h = p2 / row;
        if (h < 1 || h > 64 || p2 - h * row >= h) continue;
        for (uint64_t k = 0; k < (e.thorough() ? 6u : 2u); k++) {
          idx++;
          if (!e.mine(idx)) continue;
          e.exec(Case(e.sc.name).N(w).N(h).N(alpha).N(8).N(8).N(idx * 77 + k).N(((idx % 3) << 1) | ((idx % 4) << 3)));
          if (e.stop) return;
        }
      }
    }
  }
  e.complete(cat("all widths 1..64 x heights {", heights.size(), " values} x alpha x channel width 8/16/32/64: save as PPM/BMP/PNG, independent decode, reload; every 8-bit (width, alpha, height <= 64) whose raster size is less than `height` bytes under a power of two 2^8..2^14, few-level noise"));
}

// ---------------------------------------------------------------- large
// The statement says "saving ANY image"; 1..64 is the scope that is enumerated. This class samples beyond it: up to 256 per side,
// mostly incompressible content (what makes an encoder's output as long as its input), every alpha / channel-width combination
// (BMP and PNG apply to 8-bit channels only, so most cases have those), and - because encoders stream the raster through
// fixed-size windows and buffers - sizes whose raster / scanline data lands next to a multiple of 32 KiB (deflate window 32 KiB,
// stored-block limit 64 KiB - 1, common stdio / stack buffer sizes).
static Case gen_large() {
  Case c;
  bool alpha = vg::coin();
  unsigned cw = vg::pick<unsigned>({8, 8, 8, 8, 8, 8, 8, 16, 32, 64});
  size_t w, h;
  switch (vg::below(5)) {
    case 0:
      w = vg::range(65, 256), h = vg::range(65, 256);
      break;
    case 1:
      w = vg::range(65, 160), h = vg::range(65, 160);
      break;
    case 2: // one side inside the enumerated scope
      w = vg::range(1, 64), h = vg::range(65, 256);
      if (vg::coin()) std::swap(w, h);
      break;
    default: {
      // height chosen so that height * (1 + width * channels) is as close as the row length allows to k * 32 KiB + delta
      w = vg::range(65, 256);
      size_t stride = 1 + w * (alpha ? 4 : 3);
      size_t kmax = 256 * stride / 32768; // >= 1 for every width >= 65
      size_t k = vg::range(1, kmax);
      long target = static_cast<long>(k * 32768) + vg::range(-300, 300);
      h = static_cast<size_t>((target + static_cast<long>(stride / 2)) / static_cast<long>(stride));
      if (h < 1) h = 1;
      if (h > 256) h = 256;
    }
  }
  unsigned style = vg::pick<unsigned>({0, 0, 0, 0, 0, 0, 4, 1, 5, 6});
  uint64_t flags = vg::chance(1, 40) ? 1 : 0;
  flags |= vg::below(3) << 1;
  flags |= vg::below(4) << 3;
  c.N(w).N(h).N(alpha).N(cw).N(style).N(vg::u64()).N(flags);
  return c;
}

// ---------------------------------------------------------------- derived
// "Saving ANY image": images that came to be through copy/move construction or assignment (into a live image of another
// size / alpha flag / channel width, or into a default-constructed one), set_channel_width, set_has_alpha or a mirror
// operation are images. After 1..3 such operations the image is described by what its accessors and raw buffer say
// (dimensions, alpha flag, channel width, samples - what the operations do to the pixels is not C06's business) and then
// goes through the same save-side oracle as a freshly drawn one.
// n = [w, h, alpha, cw, style, seed, flags, (op, w2, h2, alpha2, cw2)...]
enum DerivedOp { OP_COPY_ASSIGN_LIVE = 0,
  OP_MOVE_ASSIGN_LIVE,
  OP_COPY_CONSTRUCT,
  OP_MOVE_CONSTRUCT,
  OP_SET_CHANNEL_WIDTH,
  OP_SET_HAS_ALPHA,
  OP_COPY_ASSIGN_EMPTY,
  OP_MOVE_ASSIGN_EMPTY,
  OP_REVERSE_H,
  OP_REVERSE_V,
  OP_COUNT };
static const char* kOpNames[OP_COUNT] = {"copy-assign-into-live", "move-assign-into-live", "copy-construct", "move-construct", "set_channel_width",
    "set_has_alpha", "copy-assign-into-empty", "move-assign-into-empty", "reverse_horizontal", "reverse_vertical"};

static bool valid_cw(uint64_t cw) { return cw == 8 || cw == 16 || cw == 32 || cw == 64; }

static void run_derived(const Case& c) {
  size_t w = c.u(0), h = c.u(1);
  bool alpha = c.u(2) != 0;
  unsigned cw = c.u(3);
  unsigned style = c.u(4);
  uint64_t seed = c.u(5);
  uint64_t flags = c.u(6);
  if (w < 1 || w > 256 || h < 1 || h > 256 || !valid_cw(cw) || c.n.size() < 12 || (c.n.size() - 7) % 5 || c.n.size() > 7 + 5 * 4) throw std::logic_error("derived: case outside the domain");
  int via = (flags >> 1) & 3;
  if (via == 3) via = 0;
  int save_how = (flags >> 3) & 3;
  bool trunc = flags & 1;
  size_t small_limit = ctx().thorough() ? 2048 : 1024;

  std::unique_ptr<phosg::Image> cur(new phosg::Image(to_image(make_pix(w, h, alpha, cw, style, seed))));
  std::string tag = cat(w, "x", h, alpha ? " alpha" : "", " cw=", cw);
  for (size_t k = 7; k < c.n.size(); k += 5) {
    uint64_t op = c.u(k), w2 = c.u(k + 1), h2 = c.u(k + 2), cw2 = c.u(k + 4);
    bool alpha2 = c.u(k + 3) != 0;
    if (op >= OP_COUNT || w2 < 1 || w2 > 64 || h2 < 1 || h2 > 64 || !valid_cw(cw2)) throw std::logic_error("derived: operation outside the domain");
    ctx().cls(cat("derived:op:", kOpNames[op]));
    switch (op) {
      case OP_COPY_ASSIGN_LIVE:
      case OP_MOVE_ASSIGN_LIVE: {
        std::unique_ptr<phosg::Image> t(new phosg::Image(to_image(make_pix(w2, h2, alpha2, cw2, 0, seed + k))));
        if (op == OP_COPY_ASSIGN_LIVE) *t = *cur;
        else *t = std::move(*cur);
        cur = std::move(t);
        tag += cat(" -> ", kOpNames[op], "(", w2, "x", h2, alpha2 ? " alpha" : "", " cw=", cw2, ")");
        break;
      }
      case OP_COPY_ASSIGN_EMPTY:
      case OP_MOVE_ASSIGN_EMPTY: {
        std::unique_ptr<phosg::Image> t(new phosg::Image());
        if (op == OP_COPY_ASSIGN_EMPTY) *t = *cur;
        else *t = std::move(*cur);
        cur = std::move(t);
        tag += cat(" -> ", kOpNames[op]);
        break;
      }
      case OP_COPY_CONSTRUCT:
      case OP_MOVE_CONSTRUCT: {
        std::unique_ptr<phosg::Image> t(op == OP_COPY_CONSTRUCT ? new phosg::Image(*cur) : new phosg::Image(std::move(*cur)));
        cur = std::move(t);
        tag += cat(" -> ", kOpNames[op]);
        break;
      }
      case OP_SET_CHANNEL_WIDTH: cur->set_channel_width(cw2); tag += cat(" -> set_channel_width(", cw2, ")"); break;
      case OP_SET_HAS_ALPHA: cur->set_has_alpha(alpha2); tag += cat(" -> set_has_alpha(", alpha2, ")"); break;
      case OP_REVERSE_H: cur->reverse_horizontal(); tag += " -> reverse_horizontal"; break;
      default: cur->reverse_vertical(); tag += " -> reverse_vertical"; break;
    }
  }
  Pix pix = from_image(*cur);
  if (pix.w < 1 || pix.w > 256 || pix.h < 1 || pix.h > 256) throw std::logic_error("derived: the operations left an image outside the domain");
  ctx().nontrivial_case();
  if (pix.w > 64 || pix.h > 64) ctx().cls("derived:larger-than-64");
  ctx().cls(cat("derived:cw", pix.cw, pix.alpha ? ":alpha" : ":opaque"));
  check_saved(*cur, pix, via, save_how, trunc, small_limit, tag);
}

static void push_op(Case& c, uint64_t op, uint64_t w2, uint64_t h2, uint64_t alpha2, uint64_t cw2) { c.N(op).N(w2).N(h2).N(alpha2).N(cw2); }

static Case gen_derived() {
  Case c;
  size_t w = vg::chance(1, 2) ? vg::range(1, 9) : vg::range(1, 64);
  size_t h = vg::chance(1, 2) ? vg::range(1, 9) : vg::range(1, 64);
  unsigned cw = vg::pick<unsigned>({8, 8, 16, 32, 64});
  bool large = vg::chance(1, 10); // beyond the enumerated scope (see `large`), mostly 8-bit noise
  if (large) {
    w = vg::range(65, 200), h = vg::range(65, 200);
    cw = vg::pick<unsigned>({8, 8, 8, 8, 16, 64});
  }
  size_t approx = w * h * 4 * 8;
  uint64_t flags = (approx <= 2000 ? vg::chance(1, 3) : large ? false : vg::chance(1, 20)) ? 1 : 0;
  flags |= vg::below(3) << 1;
  flags |= vg::below(4) << 3;
  c.N(w).N(h).N(vg::coin()).N(cw).N(large ? vg::pick<unsigned>({0, 0, 0, 4}) : vg::pick<unsigned>({0, 0, 1, 4, 5, 6, 7})).N(vg::u64()).N(flags);
  size_t nops = 1 + vg::below(3);
  for (size_t k = 0; k < nops; k++) {
    uint64_t op = vg::pick<uint64_t>({OP_COPY_ASSIGN_LIVE, OP_COPY_ASSIGN_LIVE, OP_MOVE_ASSIGN_LIVE, OP_MOVE_ASSIGN_LIVE, OP_COPY_CONSTRUCT, OP_MOVE_CONSTRUCT,
        OP_SET_CHANNEL_WIDTH, OP_SET_CHANNEL_WIDTH, OP_SET_HAS_ALPHA, OP_SET_HAS_ALPHA, OP_COPY_ASSIGN_EMPTY, OP_MOVE_ASSIGN_EMPTY, OP_REVERSE_H, OP_REVERSE_V});
    push_op(c, op, vg::range(1, 12), vg::range(1, 12), vg::coin(), vg::pick<unsigned>({8, 16, 32, 64}));
  }
  return c;
}

static void enum_derived(Enum& e) {
  uint64_t idx = 0;
  static const unsigned cws[4] = {8, 16, 32, 64};
  // every operation x (alpha, channel width) of the image x (alpha, channel width) of the other image / of the argument
  for (uint64_t op = 0; op < OP_COUNT && !e.stop; op++) {
    for (unsigned a = 0; a < 8; a++) {
      for (unsigned b = 0; b < 8; b++) {
        idx++;
        if (!e.mine(idx)) continue;
        Case c(e.sc.name);
        c.N(1 + idx % 7).N(1 + idx % 3).N(a & 1).N(cws[a >> 1]).N(idx % 8).N(idx * 131 + 7).N(((idx % 3) << 1) | ((idx % 4) << 3) | ((idx % 5) == 0));
        push_op(c, op, 1 + idx % 5, 1 + idx % 4, b & 1, cws[b >> 1]);
        e.exec(c);
        if (e.stop) return;
      }
    }
  }
  // pairs of operations at one small size
  for (uint64_t op1 = 0; op1 < OP_COUNT && !e.stop; op1++) {
    for (uint64_t op2 = 0; op2 < OP_COUNT; op2++) {
      idx++;
      if (!e.mine(idx)) continue;
      Case c(e.sc.name);
      c.N(3 + idx % 4).N(2 + idx % 2).N(idx & 1).N(cws[(idx >> 1) % 4]).N(idx % 8).N(idx * 131 + 7).N((idx % 3) << 1);
      push_op(c, op1, 2, 3, (idx >> 3) & 1, cws[(idx >> 4) % 4]);
      push_op(c, op2, 5, 1, (idx >> 6) & 1, cws[(idx / 5) % 4]);
      e.exec(c);
      if (e.stop) return;
    }
  }
  e.complete(cat("every one of the ", static_cast<int>(OP_COUNT), " image-producing operations x (alpha, channel width) of the image x (alpha, channel width) of the assignment target / argument, and every ordered pair of operations, at small sizes: the resulting image through the save-side oracle"));
}

// ---------------------------------------------------------------- input variants
// n = [variant, vp, w, h, style, seed, flags]; flags: bit0 truncation, bits1-2 load entry point, bits3-4 save entry point (for the loaded image)

// an image with the given geometry, sample range and samples, built without the loader: sized constructor + write_pixel when the
// range is the full one of the channel width, else the raw-data constructor with its explicit max_value argument
static phosg::Image construct_image(const Pix& p, uint64_t maxval) {
  if (maxval == mask_of(p.cw)) return to_image(p);
  std::string raw;
  size_t nc = p.alpha ? 4 : 3;
  raw.reserve(p.w * p.h * nc * (p.cw / 8));
  for (size_t i = 0; i < p.w * p.h; i++) {
    for (size_t ch = 0; ch < nc; ch++) put_le(raw, p.v[i * 4 + ch], p.cw / 8); // host order, like from_image
  }
  MemFile& mf = memfile();
  mf.set(raw.data(), raw.size());
  FILE* f = mf.open_read();
  try {
    phosg::Image img(f, p.w, p.h, p.alpha, p.cw, maxval);
    fclose(f);
    return img;
  } catch (...) {
    fclose(f);
    throw;
  }
}

static std::unique_ptr<phosg::Image> load_plain(int via) {
  MemFile& mf = memfile();
  if (via == 0) {
    FILE* f = mf.open_read();
    try {
      std::unique_ptr<phosg::Image> r(new phosg::Image(f));
      fclose(f);
      return r;
    } catch (...) {
      fclose(f);
      throw;
    }
  }
  if (via == 1) return std::unique_ptr<phosg::Image>(new phosg::Image(mf.path().c_str()));
  return std::unique_ptr<phosg::Image>(new phosg::Image(mf.path()));
}

static void run_variant(const Case& c) {
  int variant = c.u(0);
  uint64_t vp = c.u(1);
  size_t w = c.u(2), h = c.u(3);
  unsigned style = c.u(4);
  uint64_t seed = c.u(5);
  uint64_t flags = c.u(6);
  if (variant < 0 || variant >= V_COUNT || w < 1 || w > 64 || h < 1 || h > 64) throw std::logic_error("variant: case outside the domain");
  int via = (flags >> 1) & 3;
  if (via == 3) via = 0;
  size_t small_limit = ctx().thorough() ? 2048 : 1024;

  FileSpec fs = build_variant(variant, vp, seed, w, h, style);
  ctx().cls(cat("variant:", variant_name(variant)));
  if ((w % 4) || fs.expect.alpha || fs.expect.cw > 8 || fs.nondefault) ctx().nontrivial_case();
  std::string tag = cat(fs.label, " ", w, "x", h);

  MemFile& mf = memfile();
  mf.set(fs.bytes.data(), fs.bytes.size());
  Loaded r = load_checked(via, tag);
  VCHECK(r.ok, cat("variant-rejected:", variant_name(variant)), "a valid ", tag, " file was rejected with ", r.exc_type, ": ", r.exc_what);
  VCHECK(r.pix.w == w && r.pix.h == h && r.pix.alpha == fs.expect.alpha && r.pix.cw == fs.expect.cw, cat("variant-header:", variant_name(variant)),
      tag, " loaded as ", r.pix.w, "x", r.pix.h, " alpha=", r.pix.alpha, " cw=", r.pix.cw, " expected alpha=", fs.expect.alpha, " cw=", fs.expect.cw);
  if (!fs.wide) {
    VCHECK(r.pix.same_pixels(fs.expect), cat("variant-pixels:", variant_name(variant)), tag, ": ", r.pix.first_difference(fs.expect));
  } else {
    // samples wider than 8 bits: either byte order of the stored sample is accepted (DESIGN section 6 item 3)
    VCHECK(r.pix.same_pixels(fs.expect) || r.pix.same_pixels(fs.expect_swapped), cat("variant-pixels:", variant_name(variant)),
        tag, ": matches the stored samples in neither byte order; against host order: ", r.pix.first_difference(fs.expect));
  }
  // The loaded image is an image like any other ("saving ANY image"): it equals an image constructed with the same geometry,
  // sample range (the MAXVAL the file declares; 255 for a bitmap) and samples, and it saves and reloads like a freshly drawn one.
  {
    std::unique_ptr<phosg::Image> loaded = load_plain(via);
    {
      Pix again = from_image(*loaded);
      VCHECK(again.same_pixels(r.pix), "variant-load-not-repeatable", tag, ": loading the same file twice gives different images: ", again.first_difference(r.pix));
    }
    phosg::Image ref = construct_image(r.pix, fs.maxval);
    {
      Pix rp = from_image(ref);
      VCHECK(rp.same_pixels(r.pix), "setup:constructed-reference", "the constructed reference image does not hold the pixels: ", rp.first_difference(r.pix));
    }
    int save_how = (flags >> 3) & 3;
    check_saved(*loaded, r.pix, via, save_how, false, small_limit, cat("the image loaded from ", tag), fs.maxval);
    bool eq = (*loaded == ref) && !(*loaded != ref) && (ref == *loaded) && !(ref != *loaded);
    VCHECK(eq, cat("variant-equality:", variant_name(variant)), "the image loaded from ", tag, " has the geometry, alpha flag, channel width and samples of an image constructed with them (sample range ", fs.maxval,
        "), but operator==/operator!= say they differ");
    ctx().cls(fs.maxval == mask_of(r.pix.cw) ? "variant:loaded-image-saved:full-range" : "variant:loaded-image-saved:other-maxval");
  }
  if (flags & 1) {
    check_prefixes(fs.bytes, prefix_lengths(fs, small_limit), r.pix, via, tag);
    lsan_check(tag);
  }
}

static Case gen_variant() {
  Case c;
  int variant = vg::below(V_COUNT);
  uint64_t vp = vg::below(variant_space(variant) * 2);
  size_t w = vg::chance(1, 2) ? vg::range(1, 9) : vg::range(1, 64);
  size_t h = vg::chance(1, 2) ? vg::range(1, 6) : vg::range(1, 64);
  unsigned style = vg::pick<unsigned>({0, 0, 0, 1, 2, 3, 4});
  uint64_t seed = vg::u64();
  uint64_t flags = (w * h <= 80 ? vg::chance(1, 2) : vg::chance(1, 10)) ? 1 : 0;
  flags |= vg::below(3) << 1;
  flags |= vg::below(4) << 3;
  c.N(variant).N(vp).N(w).N(h).N(style).N(seed).N(flags);
  return c;
}

static void enum_variant(Enum& e) {
  uint64_t idx = 0;
  // A: every sub-variant of every variant at two tiny sizes (no truncation)
  for (int v = 0; v < V_COUNT && !e.stop; v++) {
    uint64_t space = variant_space(v);
    uint64_t step = e.thorough() ? 1 : (space > 1500 ? 7 : 1);
    for (uint64_t vp = 0; vp < space && !e.stop; vp += step) {
      idx++;
      if (!e.mine(idx)) continue;
      size_t w = 1 + (vp % 7), h = 1 + ((vp / 7) % 3);
      e.exec(Case(e.sc.name).N(v).N(vp).N(w).N(h).N(vp % 5).N(vp + 11).N(((vp % 3) << 1) | (((vp / 3) % 4) << 3)));
    }
  }
  // B: truncation at every prefix for widths of every residue mod 4, a spread of sub-variants
  size_t wmax = e.thorough() ? 9 : 5;
  size_t hmax = e.thorough() ? 3 : 2;
  uint64_t per = e.thorough() ? 16 : 3;
  for (int v = 0; v < V_COUNT && !e.stop; v++) {
    uint64_t space = variant_space(v);
    for (size_t w = 1; w <= wmax && !e.stop; w++) {
      for (size_t h = 1; h <= hmax && !e.stop; h++) {
        for (uint64_t k = 0; k < per; k++) {
          idx++;
          if (!e.mine(idx)) continue;
          uint64_t vp = (k * 1000003ULL + w * 131 + h * 17) % space;
          e.exec(Case(e.sc.name).N(v).N(vp).N(w).N(h).N(k % 5).N(idx).N(1 | ((idx % 3) << 1)));
          if (e.stop) return;
        }
      }
    }
  }
  // C: every BI_BITFIELDS mask permutation x header size x direction with truncation (gap 0 and 5)
  for (uint64_t vp = 0; vp < variant_space(V_BMP32_BITFIELDS) && !e.stop; vp++) {
    unsigned gapsel = (vp / (3 * 24 * 2)) % 6;
    if (gapsel != 0 && gapsel != 3) continue;
    if (!e.thorough() && (vp % 3) != 0 && gapsel != 0) continue;
    idx++;
    if (!e.mine(idx)) continue;
    e.exec(Case(e.sc.name).N(V_BMP32_BITFIELDS).N(vp).N(1 + vp % 5).N(1 + (vp / 5) % 2).N(0).N(vp + 5).N(1));
  }
  e.complete("every sub-variant (whitespace, header-line order, maxval, header size, byte-mask permutation, direction, data offset) of the 14 container variants at small sizes; every prefix of a spread of them for widths 1..5 (quick) / 1..9 (thorough)");
}

// ---------------------------------------------------------------- idatlen
// "Saving ANY image ... the PNG bytes are valid files ... (zlib stream ... correct)": an encoder moves the COMPRESSED data through
// buffers and chunks of its own choosing, so the length of the compressed data is an input dimension of its own - and one that no
// choice of width/height/fill controls directly (noise compresses to raw+constant, smooth content to almost nothing). This class
// FINDS images whose compressed length is an exact multiple of 2^k, k = 12..15 (4/8/16/32 KiB: the usual chunk and buffer sizes),
// with the reference compressor (zlib's compress2 at level 9 on the scanline data filter-byte-0 + row, i.e. what an encoder that
// does not filter hands to deflate; if the encoder under test compresses something else the search target is simply missed and
// the case is still a valid image - the class label `png:idat-data-length-multiple-of-N` is taken from the file actually written):
// noise, with the first z samples (raster order) set to 0; the compressed length falls by about one byte per zeroed sample, so a
// few corrected jumps plus a short scan reach the target. The search is a deterministic function of the case.
// n = [w, h, alpha, seed, k, j, flags]: target = the (j mod count)-th multiple of 2^k below the compressed length of the plain noise image
static size_t ref_deflated_size(const Pix& p, std::vector<uint8_t>& scan, std::vector<uint8_t>& out) {
  size_t nc = p.alpha ? 4 : 3, stride = 1 + p.w * nc;
  scan.resize(stride * p.h);
  for (size_t y = 0; y < p.h; y++) {
    scan[y * stride] = 0;
    for (size_t x = 0; x < p.w; x++) {
      for (size_t c = 0; c < nc; c++) scan[y * stride + 1 + x * nc + c] = static_cast<uint8_t>(p.v[(y * p.w + x) * 4 + c]);
    }
  }
  uLongf n = compressBound(scan.size());
  out.resize(n);
  if (compress2(out.data(), &n, scan.data(), scan.size(), 9) != Z_OK) throw std::logic_error("idatlen: reference compress2 failed");
  return n;
}

static void run_idatlen(const Case& c) {
  size_t w = c.u(0), h = c.u(1);
  bool alpha = c.u(2) != 0;
  uint64_t seed = c.u(3), k = c.u(4), j = c.u(5), flags = c.u(6);
  if (w < 1 || w > 256 || h < 1 || h > 256 || k < 12 || k > 15) throw std::logic_error("idatlen: case outside the domain");
  int via = (flags >> 1) & 3;
  if (via == 3) via = 0;
  int save_how = (flags >> 3) & 3;
  size_t nc = alpha ? 4 : 3, total = w * h * nc, M = size_t(1) << k;

  const Pix noise = make_pix(w, h, alpha, 8, 0, seed);
  std::vector<uint8_t> scan, out;
  auto with_zeros = [&](size_t z) {
    Pix p = noise;
    for (size_t i = 0; i < z; i++) p.v[(i / nc) * 4 + (i % nc)] = 0;
    return p;
  };
  auto f = [&](size_t z) { return ref_deflated_size(with_zeros(z), scan, out); };
  size_t f0 = f(0), count = f0 / M;
  Pix pix = noise;
  bool found = false;
  if (count == 0) {
    ctx().cls("idatlen:image-compresses-below-2^k");
  } else {
    size_t target = M * (1 + j % count);
    size_t z = 0, fz = f0, evals = 1;
    for (int it = 0; it < 24 && fz != target; it++) {
      size_t nz = fz > target ? z + (fz - target) : (z > target - fz ? z - (target - fz) : 0);
      if (nz > total) nz = total;
      if (nz == z) break;
      z = nz, fz = f(z), evals++;
    }
    if (fz != target) {
      // scan the neighbourhood
      size_t lo = z > 48 ? z - 48 : 0, hi = std::min(total, z + 48);
      for (size_t q = lo; q <= hi && fz != target; q++) z = q, fz = f(q), evals++;
    }
    found = fz == target;
    pix = with_zeros(z);
    ctx().cls(found ? cat("idatlen:reference-compressed-length-is-multiple-of-2^", k) : "idatlen:search-missed");
    ctx().cls("idatlen:reference-compressions", evals);
  }
  if (found) ctx().nontrivial_case();
  phosg::Image img = to_image(pix);
  std::string tag = cat(w, "x", h, alpha ? " alpha" : "", " cw=8 (noise after a run of zero samples; reference deflate length ", found ? "an exact" : "not a", " multiple of ", M, ")");
  check_saved(img, pix, via, save_how, false, 1024, tag);
}

// dimensions whose noise image compresses to more than 2^k bytes, by construction: scanline data h*(1+w*channels) >= 2^k + 32
static Case gen_idatlen() {
  Case c;
  bool alpha = vg::coin();
  size_t nc = alpha ? 4 : 3;
  uint64_t k = vg::pick<uint64_t>({12, 12, 13, 13, 13, 14, 15});
  size_t need = (size_t(1) << k) + 32;
  bool fits64 = 64 * (1 + 64 * nc) >= need; // the enumerated scope reaches 2^k (k = 14 only with alpha, k = 15 never)
  size_t smax = (fits64 && !vg::chance(1, 10)) ? 64 : (k == 15 ? 200 : 128);
  size_t wmin = 1;
  while (smax * (1 + wmin * nc) < need) wmin++;
  size_t w = vg::range(wmin, smax);
  size_t stride = 1 + w * nc;
  size_t hmin = (need + stride - 1) / stride;
  if (hmin > smax) hmin = smax; // cannot happen: w >= wmin
  size_t h = vg::range(hmin, smax);
  uint64_t flags = (vg::below(3) << 1) | (vg::below(4) << 3);
  c.N(w).N(h).N(alpha).N(vg::u64()).N(k).N(vg::below(8)).N(flags);
  return c;
}

static void enum_idatlen(Enum& e) {
  // in the enumerated scope (<= 64 per side): each k with the largest image of either kind that reaches 2^k, every multiple of 2^k it covers
  uint64_t idx = 0;
  for (uint64_t k = 12; k <= 14 && !e.stop; k++) {
    for (int alpha = 0; alpha < 2; alpha++) {
      size_t raw = 64 * (1 + 64 * (alpha ? 4 : 3));
      for (uint64_t j = 0; j < raw >> k; j++) {
        for (size_t w : {size_t(64), size_t(63)}) {
          if (64 * (1 + w * (alpha ? 4 : 3)) < ((j + 1) << k) + 32) continue;
          idx++;
          if (!e.mine(idx)) continue;
          e.exec(Case(e.sc.name).N(w).N(64).N(alpha).N(idx * 7919 + 3).N(k).N(j).N(((idx % 3) << 1) | ((idx % 4) << 3)));
          if (e.stop) return;
        }
      }
    }
  }
  e.complete("64x64 and 63x64 8-bit images, with and without alpha, for every multiple of 4096 / 8192 / 16384 below their noise-compressed size: an image found by search whose reference-compressed scanline data has exactly that length, through the save-side oracle");
}

int main(int argc, char** argv) {
  std::vector<SubCheck> checks;
  {
    SubCheck s;
    s.name = "roundtrip";
    s.run = run_roundtrip;
    s.gen = gen_roundtrip;
    s.enumerate = enum_roundtrip;
    s.quick_cases = 1200;
    s.thorough_cases = 40000;
    checks.push_back(s);
  }
  {
    SubCheck s;
    s.name = "large";
    s.run = run_large;
    s.gen = gen_large;
    s.quick_cases = 360;
    s.thorough_cases = 8000;
    checks.push_back(s);
  }
  {
    SubCheck s;
    s.name = "derived";
    s.run = run_derived;
    s.gen = gen_derived;
    s.enumerate = enum_derived;
    s.quick_cases = 700;
    s.thorough_cases = 20000;
    checks.push_back(s);
  }
  {
    SubCheck s;
    s.name = "idatlen";
    s.run = run_idatlen;
    s.gen = gen_idatlen;
    s.enumerate = enum_idatlen;
    s.quick_cases = 64;
    s.thorough_cases = 1500;
    checks.push_back(s);
  }
  {
    SubCheck s;
    s.name = "variant";
    s.run = run_variant;
    s.gen = gen_variant;
    s.enumerate = enum_variant;
    s.quick_cases = 2500;
    s.thorough_cases = 80000;
    checks.push_back(s);
  }
  return main_(argc, argv, checks);
}
