// C20 - integer, vector and matrix helpers satisfy their defining equations.
#include <math.h>
#include <pthread.h>
#include <signal.h>
#include <fcntl.h>
#include <sys/stat.h>
#include <sys/wait.h>
#include <time.h>
#include <unistd.h>

#include <atomic>
#include <cmath>
#include <functional>
#include <memory>
#include <numeric>
#include <thread>

#include <phosg/Math.hh>
#include <phosg/Random.hh>
#include <phosg/Vector.hh>

#include "verif.hh"

using namespace verif;
typedef __int128 i128;
typedef unsigned __int128 u128;

// ---------------------------------------------------------------- integer helpers

static const char* kTypeNames[8] = {"u8", "u16", "u32", "u64", "s8", "s16", "s32", "s64"};

template <typename F>
static void with_type(uint64_t code, F&& f) {
  switch (code) {
    case 0: f(uint8_t{}); break;
    case 1: f(uint16_t{}); break;
    case 2: f(uint32_t{}); break;
    case 3: f(uint64_t{}); break;
    case 4: f(int8_t{}); break;
    case 5: f(int16_t{}); break;
    case 6: f(int32_t{}); break;
    case 7: f(int64_t{}); break;
    default: throw std::logic_error("bad type code");
  }
}

static uint64_t type_max(uint64_t code) {
  static const uint64_t m[8] = {0xFF, 0xFFFF, 0xFFFFFFFFULL, UINT64_MAX, 0x7F, 0x7FFF, 0x7FFFFFFF, INT64_MAX};
  return m[code];
}

static uint64_t ref_gcd(uint64_t a, uint64_t b) {
  // subtraction-free binary-independent reference: std::gcd on uint64
  return std::gcd(a, b);
}

// case: n = [type, a, b]  (a, b non-negative and within the type)
static void run_gcd(const Case& c) {
  uint64_t code = c.u(0), a = c.u(1), b = c.u(2);
  if (a > type_max(code) || b > type_max(code)) throw std::logic_error("operand outside type");
  with_type(code, [&](auto tag) {
    using T = decltype(tag);
    T g = phosg::gcd<T>(static_cast<T>(a), static_cast<T>(b));
    uint64_t rg = ref_gcd(a, b);
    VCHECK(static_cast<uint64_t>(g) == rg && g >= 0, cat("gcd-value:", kTypeNames[code]), "gcd(", a, ",", b, ") returned ", (int64_t)g, " expected ", rg);
    if (b == 0) VCHECK(static_cast<uint64_t>(g) == a, "gcd-a-0", "gcd(a,0) != a for a=", a);
    if (g != 0) {
      VCHECK(a % static_cast<uint64_t>(g) == 0 && b % static_cast<uint64_t>(g) == 0, "gcd-divides", "gcd does not divide its arguments: ", a, " ", b);
    }
    if (rg > 1 && a > 1 && b > 1) ctx().nontrivial_case();
    if (a != 0 || b != 0) {
      auto fr = phosg::reduce_fraction<T>(static_cast<T>(a), static_cast<T>(b));
      uint64_t p = static_cast<uint64_t>(fr.first), q = static_cast<uint64_t>(fr.second);
      VCHECK(fr.first >= 0 && fr.second >= 0, "reduce-sign", "negative term for non-negative operands ", a, "/", b);
      VCHECK(ref_gcd(p, q) == 1, cat("reduce-coprime:", kTypeNames[code]), "reduce_fraction(", a, ",", b, ") = ", p, "/", q, " not coprime");
      VCHECK(static_cast<u128>(p) * b == static_cast<u128>(q) * a, cat("reduce-ratio:", kTypeNames[code]), "reduce_fraction(", a, ",", b, ") = ", p, "/", q, " changes the ratio");
    }
  });
}

static uint64_t ref_log2(uint64_t v) {
  uint64_t r = 0;
  while (v >>= 1) r++;
  return r;
}

// case: n = [type, v] with v positive within the type
static void run_log2i(const Case& c) {
  uint64_t code = c.u(0), v = c.u(1);
  if (v == 0 || v > type_max(code)) throw std::logic_error("log2i operand outside domain");
  with_type(code, [&](auto tag) {
    using T = decltype(tag);
    T r = phosg::log2i<T>(static_cast<T>(v));
    VCHECK(static_cast<int64_t>(r) == static_cast<int64_t>(ref_log2(v)), cat("log2i-value:", kTypeNames[code]), "log2i<", kTypeNames[code], ">(", v, ") returned ", (int64_t)r, " expected ", ref_log2(v));
  });
  if (((v & (v - 1)) == 0) || ((v & (v + 1)) == 0) || (((v - 1) & (v - 2)) == 0)) ctx().nontrivial_case();
}

// case: n = [lo, hi, draws]
static void run_random_int(const Case& c) {
  int64_t lo = c.i(0), hi = c.i(1);
  uint64_t draws = c.u(2);
  if (hi < lo || static_cast<uint64_t>(hi) - static_cast<uint64_t>(lo) >= (1ULL << 63)) throw std::logic_error("range outside domain");
  uint64_t span = static_cast<uint64_t>(hi) - static_cast<uint64_t>(lo) + 1;
  uint64_t seen = 0;
  if (span <= 4) draws = 1000;
  for (uint64_t k = 0; k < draws; k++) {
    int64_t v = phosg::random_int(lo, hi);
    VCHECK(v >= lo && v <= hi, "random-int-range", "random_int(", lo, ",", hi, ") returned ", v);
    if (span <= 4) seen |= 1ULL << (static_cast<uint64_t>(v) - static_cast<uint64_t>(lo));
  }
  if (span <= 4) {
    VCHECK(seen == (1ULL << span) - 1, "random-int-coverage", "random_int(", lo, ",", hi, ") never produced some value in 1000 draws (mask ", seen, ")");
  }
  if (span > 1) ctx().nontrivial_case();
  ctx().cls(span <= 0x100 ? "random_int:span<=2^8" : span <= 0x10000 ? "random_int:span<=2^16" : span <= 0x100000000ULL ? "random_int:span<=2^32" : "random_int:span>2^32");
}

// case: n = [size0, size1, ...]: successive random_data calls into guarded buffers.
// random_data keeps a thread-local pool of bytes read from /dev/urandom; the sequence runs on a fresh thread so
// that the pool starts empty and the outcome is a function of the case alone (replayable).
static void check_filled(const uint8_t* p, size_t sz, uint8_t fill, const char* what, size_t call) {
  if (sz < 32) return;
  bool constant = true;
  for (size_t g = 1; g < sz; g++) constant &= (p[g] == p[0]);
  VCHECK(!constant, "random-data-constant", what, "(", sz, ") produced a constant byte (call #", call, ")");
  // a short fill leaves the pre-fill pattern at one end; 16 untouched bytes have probability 2^-128
  bool tail = true, head = true;
  for (size_t g = 0; g < 16; g++) {
    tail &= (p[sz - 16 + g] == fill);
    head &= (p[g] == fill);
  }
  VCHECK(!tail, "random-data-short", what, "(", sz, ") left the last 16 bytes untouched (call #", call, ")");
  VCHECK(!head, "random-data-short-head", what, "(", sz, ") left the first 16 bytes untouched (call #", call, ")");
  // ... or somewhere in the middle: no run of 24 untouched bytes anywhere (2^-192 per position)
  size_t run = 0;
  for (size_t g = 0; g < sz; g++) {
    run = (p[g] == fill) ? run + 1 : 0;
    VCHECK(run < 24, "random-data-hole", what, "(", sz, ") left 24 consecutive bytes untouched ending at offset ", g, " (call #", call, ")");
  }
}

// options of a sequence: in the ordinary environment an exception is a failure; where the entropy source cannot be opened
// (subcheck random_data_nofd) a call may throw instead of filling - what it may not do is return normally with bytes missing
struct SeqOpts {
  size_t first = 0; // index of the first size field of the case
  bool may_throw = false;
  std::function<void(size_t)> before_call; // ambient-state hook, called with the index of the request
  uint64_t threw = 0, filled = 0;
};

static void random_data_sequence(const Case& c, std::string* failure_sig, std::string* failure_msg, SeqOpts* opts = nullptr) {
  try {
    for (size_t k = opts ? opts->first : 0; k < c.n.size(); k++) {
      size_t sz = c.u(k);
      if (opts && opts->before_call) opts->before_call(k - opts->first);
      // (a) into the middle of a guarded buffer
      // "fills the requested bytes" leaves no room for giving up: an exception is a failure of its own kind
      auto filling = [&](auto&& call, const char* what) -> bool {
        try {
          call();
          if (opts) opts->filled++;
          return true;
        } catch (const std::exception& e) {
          if (opts && opts->may_throw) {
            opts->threw++;
            return false;
          }
          VFAIL("random-data-threw", what, "(", sz, ") threw ", exception_name(e), ": ", e.what(), " (call #", k, ")");
        }
      };
      std::vector<uint8_t> buf(sz + 32, 0xA5);
      bool done_a = filling([&] { phosg::random_data(buf.data() + 16, sz); }, "random_data(void*)");
      for (size_t g = 0; g < 16; g++) {
        VCHECK(buf[g] == 0xA5 && buf[16 + sz + g] == 0xA5, "random-data-guard", "random_data(", sz, ") wrote outside the requested bytes (call #", k, ")");
      }
      if (done_a) check_filled(buf.data() + 16, sz, 0xA5, "random_data(void*)", k);
      // (b) into an exactly-sized heap block: ASan sees the first byte past the end
      std::unique_ptr<uint8_t, void (*)(void*)> exact_owner(static_cast<uint8_t*>(malloc(sz ? sz : 1)), free);
      uint8_t* exact = exact_owner.get();
      memset(exact, 0x5A, sz);
      bool done_b = filling([&] { phosg::random_data(exact, sz); }, "random_data(void*) exact block");
      std::vector<uint8_t> copy(exact, exact + sz);
      exact_owner.reset();
      if (done_b) check_filled(copy.data(), sz, 0x5A, "random_data(void*) exact block", k);
      // (c) the string overload (zero-initialised result)
      std::string s;
      bool done_c = filling([&] { s = phosg::random_data(sz); }, "random_data(size)");
      if (done_c) {
        VCHECK(s.size() == sz, "random-data-size", "random_data(", sz, ").size() == ", s.size());
        check_filled(reinterpret_cast<const uint8_t*>(s.data()), sz, 0x00, "random_data(size)", k);
      }
    }
  } catch (const Fail& f) {
    *failure_sig = f.sig;
    *failure_msg = f.msg;
  } catch (const std::exception& e) {
    *failure_sig = "unexpected-exception";
    *failure_msg = e.what();
  }
}

static void run_random_data(const Case& c) {
  bool nt = false;
  uint64_t total = 0;
  for (size_t k = 0; k < c.n.size(); k++) {
    if (c.u(k) > (1 << 20)) throw std::logic_error("size outside domain");
    if (c.u(k) > 4096) nt = true;
    total += 3 * c.u(k);
  }
  std::string sig, msg;
  std::thread t([&] { random_data_sequence(c, &sig, &msg); });
  t.join();
  if (!sig.empty()) VFAIL(sig, msg);
  if (total > 4096) ctx().cls("random_data:sequence-crosses-a-pool-refill");
  if (nt || c.n.size() >= 3) ctx().nontrivial_case();
}

// random_data while signals arrive. "Fills exactly the requested bytes" has no exception for a process that receives
// signals, and a handler installed with SA_RESTART is the ordinary, supposedly transparent kind of ambient state
// (every shard of this framework already runs with one: the SIGPROF CPU watchdog). The request sequence runs on a
// fresh thread (empty pool, as above) while the calling thread sends that thread SIGUSR2 every `period` microseconds;
// the handler only counts. Oracle = the one of random_data (normal return, guard bytes, no untouched run, size).
// case: n = [period_us, size0, size1, ...]; the previous disposition of SIGUSR2 is restored after the case.
static std::atomic<uint64_t> g_sig_count{0};
static void count_signal(int) { g_sig_count.fetch_add(1, std::memory_order_relaxed); }

struct SigSeq {
  Case sizes{"random_data"};
  std::string sig, msg;
  std::atomic<bool> done{false}, released{false};
};
static void sig_sequence_thread(SigSeq* q) {
  random_data_sequence(q->sizes, &q->sig, &q->msg, nullptr);
  q->done.store(true);
  // stay alive (and signalable) until the sender has stopped
  while (!q->released.load()) std::this_thread::yield();
}

static void run_random_data_sig(const Case& c) {
  if (c.n.size() < 2) throw std::logic_error("short case");
  uint64_t period = c.u(0);
  if (period < 5 || period > 100000) throw std::logic_error("period outside domain");
  SigSeq q;
  bool large = false;
  for (size_t k = 1; k < c.n.size(); k++) {
    if (c.u(k) > (1 << 22)) throw std::logic_error("size outside domain");
    if (c.u(k) >= 8192) large = true;
    q.sizes.N(c.u(k));
  }
  struct sigaction sa, old;
  memset(&sa, 0, sizeof(sa));
  sa.sa_handler = count_signal;
  sa.sa_flags = SA_RESTART;
  sigemptyset(&sa.sa_mask);
  if (sigaction(SIGUSR2, &sa, &old) != 0) throw std::logic_error("sigaction failed");
  g_sig_count.store(0);
  {
    std::thread t(sig_sequence_thread, &q);
    pthread_t h = t.native_handle();
    struct timespec ts;
    ts.tv_sec = period / 1000000;
    ts.tv_nsec = (period % 1000000) * 1000;
    while (!q.done.load()) {
      pthread_kill(h, SIGUSR2);
      nanosleep(&ts, nullptr);
    }
    q.released.store(true);
    t.join();
  }
  sigaction(SIGUSR2, &old, nullptr);
  uint64_t delivered = g_sig_count.load();
  if (!q.sig.empty()) VFAIL(q.sig, q.msg, " [while SIGUSR2 (SA_RESTART handler) was delivered every ", period, " us; ", delivered, " delivered]");
  ctx().cls(delivered == 0 ? "random_data_sig:no-signal-arrived" : delivered < 10 ? "random_data_sig:1-9-signals" : "random_data_sig:>=10-signals");
  if (large && delivered > 0) ctx().nontrivial_case();
}

// random_data in a process that cannot open the entropy source. "random_data fills exactly the requested bytes" is stated
// without an environment; whether the kernel's random device can be opened when the process makes its FIRST call (the
// descriptor is opened once, lazily) is ambient state like errno or pending signals: a process that has run out of
// descriptors (EMFILE), a chroot / container without /dev. In that state a call may fail loudly - an exception claims nothing
// was filled - or get its bytes some other way; what it may not do is return normally with requested bytes left untouched.
// The state has to exist at the first call of the process, so each case runs in a fresh process: the harness re-executes
// itself (/proc/self/exe --c20-nofd-child ...), the child makes an empty directory under its working directory its root
// (chroot: no /dev there, open("/dev/urandom") fails with ENOENT; descriptors it already has keep working), verifies that
// the open fails, runs the request sequence on its main thread with the oracle of random_data except that an exception is
// accepted in place of a fill, and reports over a pipe. Before request number `restore_at` it returns to the real root
// (/dev is there again: from then on the environment is the ordinary one, whatever the earlier calls decided).
// (Exhausting the descriptor table - RLIMIT_NOFILE = 0, EMFILE - is the other way into this state; it is not used because
// UBSan's own vptr check needs a pipe() and reports false positives without descriptors.) Needs CAP_SYS_CHROOT (the
// framework runs as root).
// case: n = [restore_at (>= number of requests: never), size0, size1, ...]
static int nofd_child(int argc, char** argv) {
  Case c("random_data_nofd");
  for (int i = 2; i < argc; i++) c.N(strtoull(argv[i], nullptr, 10));
  auto reply = [](const std::string& text) {
    size_t off = 0;
    while (off < text.size()) {
      ssize_t w = write(1, text.data() + off, text.size() - off);
      if (w <= 0) break;
      off += static_cast<size_t>(w);
    }
    _exit(0);
  };
  if (c.n.size() < 2) reply("INFRA\nshort case\n");
  int real_root = open("/", O_RDONLY | O_DIRECTORY);
  if (real_root < 0) reply("INFRA\nopen(/) failed\n");
  std::string jail = cat("c20-nofd-", getpid());
  if (mkdir(jail.c_str(), 0700) != 0 && errno != EEXIST) reply("INFRA\nmkdir failed\n");
  if (chroot(jail.c_str()) != 0 || chdir("/") != 0) reply(cat("INFRA\nchroot failed: ", strerror(errno), "\n"));
  int probe = open("/dev/urandom", O_RDONLY);
  if (probe >= 0) reply("INFRA\nopen(/dev/urandom) still succeeds inside the empty root\n");
  uint64_t restore_at = c.u(0);
  SeqOpts opts;
  opts.first = 1;
  opts.may_throw = true;
  opts.before_call = [&](size_t k) {
    if (k == restore_at && (fchdir(real_root) != 0 || chroot(".") != 0)) reply("INFRA\nleaving the empty root failed\n");
  };
  std::string sig, msg;
  random_data_sequence(c, &sig, &msg, &opts);
  if (!sig.empty()) reply(cat("FAIL\n", sig, "\n", msg, "\n"));
  reply(cat("OK\n", opts.threw, " ", opts.filled, "\n"));
  return 0;
}

static void run_random_data_nofd(const Case& c) {
  if (c.n.size() < 2 || c.n.size() > 9) throw std::logic_error("bad case");
  for (size_t k = 1; k < c.n.size(); k++)
    if (c.u(k) > (1 << 20)) throw std::logic_error("size outside domain");
  std::vector<std::string> args = {"c20-nofd-child", "--c20-nofd-child"};
  for (size_t k = 0; k < c.n.size(); k++) args.push_back(std::to_string(c.u(k)));
  std::vector<char*> av;
  for (auto& a : args) av.push_back(a.data());
  av.push_back(nullptr);
  int pfd[2];
  if (pipe(pfd) != 0) throw std::logic_error("pipe failed");
  pid_t pid = fork();
  if (pid < 0) throw std::logic_error("fork failed");
  if (pid == 0) {
    dup2(pfd[1], 1);
    close(pfd[0]);
    close(pfd[1]);
    execv("/proc/self/exe", av.data());
    _exit(126);
  }
  close(pfd[1]);
  std::string out;
  char buf[4096];
  for (;;) {
    ssize_t r = read(pfd[0], buf, sizeof(buf));
    if (r < 0 && errno == EINTR) continue;
    if (r <= 0) break;
    out.append(buf, static_cast<size_t>(r));
  }
  close(pfd[0]);
  int status = 0;
  while (waitpid(pid, &status, 0) < 0 && errno == EINTR) {
  }
  rmdir(cat("c20-nofd-", pid).c_str());
  auto line = [&](size_t i) {
    size_t pos = 0;
    for (size_t k = 0; k < i; k++) {
      pos = out.find('\n', pos);
      if (pos == std::string::npos) return std::string();
      pos++;
    }
    size_t end = out.find('\n', pos);
    return out.substr(pos, end == std::string::npos ? std::string::npos : end - pos);
  };
  std::string head = line(0);
  const char* where = " [fresh process whose first random_data call finds /dev/urandom unopenable: empty root directory, ENOENT]";
  if (head == "FAIL") VFAIL(line(1), line(2), where);
  if (head == "INFRA") throw std::logic_error("nofd child: " + line(1));
  // no report at all: the child died (sanitizer report, signal) while it ran the sequence
  VCHECK(head == "OK" && WIFEXITED(status) && WEXITSTATUS(status) == 0, "random-data-nofd-child-died", "the child process ended with wait status ", status,
      " without a verdict (output: \"", out.substr(0, 200), "\")", where);
  unsigned long long threw = 0, filled = 0;
  sscanf(line(1).c_str(), "%llu %llu", &threw, &filled);
  ctx().cls(threw && filled ? "random_data_nofd:some calls threw, some filled" : threw ? "random_data_nofd:every call threw" : "random_data_nofd:every call filled");
  if (c.n.size() >= 4 || (threw && filled)) ctx().nontrivial_case();
}

// ---------------------------------------------------------------- vectors

typedef phosg::Vector2<int64_t> V2;
typedef phosg::Vector3<int64_t> V3;
typedef phosg::Vector4<int64_t> V4;
typedef phosg::Matrix4<int64_t> M4;

typedef phosg::Vector2<double> V2d;
typedef phosg::Vector3<double> V3d;
typedef phosg::Vector4<double> V4d;
typedef phosg::Matrix4<double> M4d;

// component i as an lvalue (at(i) returns a copy)
template <typename S>
static S& comp(phosg::Vector2<S>& v, size_t i) { return i == 0 ? v.x : v.y; }
template <typename S>
static S& comp(phosg::Vector3<S>& v, size_t i) { return i == 0 ? v.x : i == 1 ? v.y : v.z; }
template <typename S>
static S& comp(phosg::Vector4<S>& v, size_t i) { return i == 0 ? v.x : i == 1 ? v.y : i == 2 ? v.z : v.w; }

// value equality of one component: the native == (for floating point the IEEE one: +0.0 equals -0.0), and two NaNs
// (inf - inf, inf * 0 of the componentwise definition itself) count as the same result
template <typename S>
static bool same_value(S x, S y) {
  if constexpr (std::is_floating_point_v<S>) return x == y || (std::isnan(x) && std::isnan(y));
  else return x == y;
}

// The laws are written once for the scalar type S: int64_t (small integers, exact) and double (components from a set
// of signed zeros, small dyadic values and infinities: every finite intermediate result is exact, so the componentwise
// definition has one value whatever the order of evaluation). Operands never contain NaN (the strict weak order of the
// property does not cover it); results may (inf - inf), and are compared NaN-aware.
template <typename V, size_t N, typename S = int64_t>
static void vec_laws(const S* a, const S* b, S k, const V& va, const V& vb, const char* tn) {
  auto eq = [&](const V& r, auto f, const char* op) {
    for (size_t i = 0; i < N; i++) {
      S e = f(i);
      VCHECK(same_value<S>(r.at(i), e), cat(tn, "-", op), "component ", i, " is ", r.at(i), " expected ", e);
    }
  };
  eq(va + vb, [&](size_t i) { return a[i] + b[i]; }, "add");
  eq(va - vb, [&](size_t i) { return a[i] - b[i]; }, "sub");
  eq(-va, [&](size_t i) { return -a[i]; }, "neg");
  eq(va + k, [&](size_t i) { return a[i] + k; }, "add-scalar");
  eq(va - k, [&](size_t i) { return a[i] - k; }, "sub-scalar");
  eq(va * k, [&](size_t i) { return a[i] * k; }, "mul-scalar");
  if (k != 0) {
    eq(va / k, [&](size_t i) { return a[i] / k; }, "div-scalar");
    if constexpr (std::is_integral_v<S>) eq(va % k, [&](size_t i) { return a[i] % k; }, "mod-scalar");
  }
  {
    V t = va;
    V& r = (t += vb);
    VCHECK(&r == &t, cat(tn, "-compound-ref"), "+= does not return *this");
    eq(t, [&](size_t i) { return a[i] + b[i]; }, "add-assign");
    t = va;
    t -= vb;
    eq(t, [&](size_t i) { return a[i] - b[i]; }, "sub-assign");
    t = va;
    t += k;
    eq(t, [&](size_t i) { return a[i] + k; }, "add-scalar-assign");
    t = va;
    t -= k;
    eq(t, [&](size_t i) { return a[i] - k; }, "sub-scalar-assign");
    t = va;
    t *= k;
    eq(t, [&](size_t i) { return a[i] * k; }, "mul-scalar-assign");
    if (k != 0) {
      t = va;
      t /= k;
      eq(t, [&](size_t i) { return a[i] / k; }, "div-scalar-assign");
      if constexpr (std::is_integral_v<S>) {
        t = va;
        t %= k;
        eq(t, [&](size_t i) { return a[i] % k; }, "mod-scalar-assign");
      }
    }
  }
  // The same definitions when the right-hand operand is (a reference to) part of the left-hand object:
  // `v op= v.<component j>` must use the value the component had when the operator was called, `v op= v` likewise.
  for (size_t j = 0; j < N; j++) {
    const S s = a[j]; // the operand's value, copied before the operation
    V t = va;
    V& r = (t += comp(t, j));
    VCHECK(&r == &t, cat(tn, "-compound-ref"), "+= (scalar) does not return *this");
    eq(t, [&](size_t i) { return a[i] + s; }, "add-scalar-assign-aliased");
    t = va;
    t -= comp(t, j);
    eq(t, [&](size_t i) { return a[i] - s; }, "sub-scalar-assign-aliased");
    t = va;
    t *= comp(t, j);
    eq(t, [&](size_t i) { return a[i] * s; }, "mul-scalar-assign-aliased");
    if (s != 0) {
      t = va;
      t /= comp(t, j);
      eq(t, [&](size_t i) { return a[i] / s; }, "div-scalar-assign-aliased");
      if constexpr (std::is_integral_v<S>) {
        t = va;
        t %= comp(t, j);
        eq(t, [&](size_t i) { return a[i] % s; }, "mod-scalar-assign-aliased");
      }
    }
    // non-compound forms with the same operand: result componentwise, left operand unchanged
    t = va;
    eq(t + comp(t, j), [&](size_t i) { return a[i] + s; }, "add-scalar-aliased");
    eq(t - comp(t, j), [&](size_t i) { return a[i] - s; }, "sub-scalar-aliased");
    eq(t * comp(t, j), [&](size_t i) { return a[i] * s; }, "mul-scalar-aliased");
    if (s != 0) {
      eq(t / comp(t, j), [&](size_t i) { return a[i] / s; }, "div-scalar-aliased");
      if constexpr (std::is_integral_v<S>) eq(t % comp(t, j), [&](size_t i) { return a[i] % s; }, "mod-scalar-aliased");
    }
    eq(t, [&](size_t i) { return a[i]; }, "binary-op-modified-operand");
  }
  {
    V t = va;
    t += t;
    eq(t, [&](size_t i) { return a[i] + a[i]; }, "add-assign-self");
    t = va;
    t -= t;
    eq(t, [&](size_t i) { return a[i] - a[i]; }, "sub-assign-self");
  }
  S dot = 0, n1 = 0, n2 = 0;
  bool all_zero = true, same = true;
  for (size_t i = 0; i < N; i++) {
    dot += a[i] * b[i];
    n1 += a[i];
    n2 += a[i] * a[i];
    all_zero &= (a[i] == 0);
    same &= (a[i] == b[i]);
  }
  VCHECK(same_value<S>(va.dot(vb), dot), cat(tn, "-dot"), "dot is ", va.dot(vb), " expected ", dot);
  // norm1() / norm2() / norm() are not among the operations the statement names (in /repo norm1() is the plain sum of the components,
  // not the sum of their magnitudes; norm() may be sqrt(norm2()) or a hypot that cannot overflow): called, so that the sanitizers see
  // them, and classified - not judged
  {
    S g1 = va.norm1(), g2 = va.norm2();
    double nr = va.norm(), er = sqrt(static_cast<double>(n2));
    ctx().cls(same_value<S>(g1, n1) ? "norm1:plain-sum" : "norm1:other-definition");
    ctx().cls(same_value<S>(g2, n2) ? "norm2:dot(v,v)" : "norm2:other");
    ctx().cls((same_value<double>(nr, er) || fabs(nr - er) <= 1e-12 * fabs(er)) ? "norm:sqrt(norm2)" : "norm:other");
  }
  VCHECK((!va) == all_zero, cat(tn, "-not"), "operator! is ", !va);
  // == is the componentwise ==: for floating-point components the IEEE one (+0.0 equals -0.0)
  VCHECK((va == vb) == same && (va != vb) == !same, cat(tn, "-eq"), "== / != disagree with componentwise equality");
  VCHECK((vb == va) == same && (vb != va) == !same, cat(tn, "-eq"), "== / != (operands swapped) disagree with componentwise equality");
  VCHECK((va == va) && !(va != va), cat(tn, "-eq-reflexive"), "a != a");
  // lexicographic order
  bool lt = std::lexicographical_compare(a, a + N, b, b + N);
  bool gt = std::lexicographical_compare(b, b + N, a, a + N);
  VCHECK((va < vb) == lt, cat(tn, "-less"), "operator< is ", (va < vb), " expected ", lt);
  VCHECK((vb < va) == gt, cat(tn, "-less"), "reversed operator< is ", (vb < va), " expected ", gt);
  VCHECK(!(va < va), cat(tn, "-less-irreflexive"), "a < a");
  VCHECK(!((va < vb) && (vb < va)), cat(tn, "-less-asymmetric"), "a<b and b<a");
  VCHECK(((va < vb) || (vb < va)) == !(va == vb), cat(tn, "-less-total"), "order not consistent with ==");
  VCHECK(V::dimensions() == N, cat(tn, "-dimensions"), "dimensions() is ", V::dimensions());
  // consequences of the componentwise definitions, decided by the type's own ==: a - b == -(b - a), a + b == b + a,
  // (a - b) + b == a where no component of the results is NaN (every finite value here is exact)
  {
    V d1 = va - vb, d2 = -(vb - va), s1 = va + vb, s2 = vb + va, z1 = va * S(0), z2 = vb * S(0);
    auto no_nan = [&](const V& v) {
      for (size_t i = 0; i < N; i++)
        if (!(v.at(i) == v.at(i))) return false;
      return true;
    };
    if (no_nan(d1) && no_nan(d2)) {
      VCHECK(d1 == d2 && !(d1 != d2), cat(tn, "-antisymmetry"), "a - b != -(b - a) by the type's own ==");
      VCHECK(!(d1 < d2) && !(d2 < d1), cat(tn, "-antisymmetry-order"), "a - b and -(b - a) are ordered by <");
    }
    if (no_nan(s1) && no_nan(s2)) VCHECK(s1 == s2, cat(tn, "-add-commutes"), "a + b != b + a by the type's own ==");
    if (no_nan(z1) && no_nan(z2)) VCHECK(z1 == z2 && !(z1 < z2) && !(z2 < z1), cat(tn, "-zero-scale"), "a * 0 and b * 0 differ by the type's own == or <");
  }
}

// case: n = [ax, ay, bx, by, k]
static void run_v2(const Case& c) {
  int64_t a[2] = {c.i(0), c.i(1)}, b[2] = {c.i(2), c.i(3)};
  vec_laws<V2, 2>(a, b, c.i(4), V2(a[0], a[1]), V2(b[0], b[1]), "v2");
  V2 z;
  VCHECK(z.x == 0 && z.y == 0, "v2-default", "default vector is not zero");
  if (!(a[0] == b[0] && a[1] == b[1]) && (a[0] | a[1]) && (b[0] | b[1])) ctx().nontrivial_case();
}
// case: n = [ax, ay, az, bx, by, bz, k]
static void run_v3(const Case& c) {
  int64_t a[3] = {c.i(0), c.i(1), c.i(2)}, b[3] = {c.i(3), c.i(4), c.i(5)};
  V3 va(a[0], a[1], a[2]), vb(b[0], b[1], b[2]);
  vec_laws<V3, 3>(a, b, c.i(6), va, vb, "v3");
  V3 cr = va.cross(vb);
  int64_t e[3] = {a[1] * b[2] - a[2] * b[1], a[2] * b[0] - a[0] * b[2], a[0] * b[1] - a[1] * b[0]};
  VCHECK(cr.x == e[0] && cr.y == e[1] && cr.z == e[2], "v3-cross", "cross product is [", cr.x, ",", cr.y, ",", cr.z, "]");
  VCHECK(cr.dot(va) == 0 && cr.dot(vb) == 0, "v3-cross-orthogonal", "cross product not orthogonal to its operands");
  V3 from2(V2(a[0], a[1]), a[2]);
  VCHECK(from2 == va, "v3-from-v2", "Vector3(Vector2, z) differs");
  if (!(va == vb) && !!va && !!vb) ctx().nontrivial_case();
}
// case: n = [a0..a3, b0..b3, k]
static void run_v4(const Case& c) {
  int64_t a[4] = {c.i(0), c.i(1), c.i(2), c.i(3)}, b[4] = {c.i(4), c.i(5), c.i(6), c.i(7)};
  V4 va(a[0], a[1], a[2], a[3]), vb(b[0], b[1], b[2], b[3]);
  vec_laws<V4, 4>(a, b, c.i(8), va, vb, "v4");
  VCHECK(V4(V3(a[0], a[1], a[2]), a[3]) == va && V4(V2(a[0], a[1]), a[2], a[3]) == va, "v4-from-smaller", "widening constructors differ");
  if (!(va == vb) && !!va && !!vb) ctx().nontrivial_case();
}
// transitivity of operator< on a triple; n = [dim, a.., b.., c..]
static void run_vtrans(const Case& c) {
  uint64_t dim = c.u(0);
  const uint64_t* p = c.n.data() + 1;
  if (c.n.size() < 1 + 3 * dim) throw std::logic_error("short case");
  auto chk = [&](auto mk) {
    auto A = mk(p), B = mk(p + dim), C = mk(p + 2 * dim);
    if ((A < B) && (B < C)) VCHECK(A < C, "less-transitive", "a<b, b<c but not a<c (dim ", dim, ")");
    // incomparability (== here) is transitive too
    bool iab = !(A < B) && !(B < A), ibc = !(B < C) && !(C < B), iac = !(A < C) && !(C < A);
    if (iab && ibc) VCHECK(iac, "less-incomparable-transitive", "equivalence induced by < not transitive");
  };
  if (dim == 2) chk([](const uint64_t* q) { return V2(q[0], q[1]); });
  else if (dim == 3) chk([](const uint64_t* q) { return V3(q[0], q[1], q[2]); });
  else chk([](const uint64_t* q) { return V4(q[0], q[1], q[2], q[3]); });
  ctx().nontrivial_case();
}

// ---- the same laws for double components. case: n = bit patterns of [a.., b.., k]; NaN operands are outside the domain
static double dbl_operand(const Case& c, size_t i) {
  double v = c.d(i);
  if (std::isnan(v)) throw std::logic_error("NaN operand outside the domain");
  return v;
}
static bool all_finite(const double* p, size_t n) {
  for (size_t i = 0; i < n; i++)
    if (!std::isfinite(p[i])) return false;
  return true;
}
// classes: does a pair differ only in the sign of a zero somewhere (== must say equal, < must not order them)?
static void dbl_pair_classes(const double* a, const double* b, size_t n, const char* tn) {
  bool equal = true, zero_sign = false, inf = false;
  for (size_t i = 0; i < n; i++) {
    equal &= (a[i] == b[i]);
    zero_sign |= (a[i] == 0 && b[i] == 0 && std::signbit(a[i]) != std::signbit(b[i]));
    inf |= std::isinf(a[i]) || std::isinf(b[i]);
  }
  if (equal && zero_sign) ctx().cls(cat(tn, ":equal-up-to-sign-of-zero"));
  if (inf) ctx().cls(cat(tn, ":infinite-component"));
  // non-trivial: distinct non-zero operands (as for the integer laws), or operands that are equal as values but not as bytes
  bool a_zero = true, b_zero = true;
  for (size_t i = 0; i < n; i++) {
    a_zero &= (a[i] == 0);
    b_zero &= (b[i] == 0);
  }
  if ((!equal && !a_zero && !b_zero) || (equal && zero_sign)) ctx().nontrivial_case();
}
static void run_v2d(const Case& c) {
  double a[2] = {dbl_operand(c, 0), dbl_operand(c, 1)}, b[2] = {dbl_operand(c, 2), dbl_operand(c, 3)};
  vec_laws<V2d, 2, double>(a, b, dbl_operand(c, 4), V2d(a[0], a[1]), V2d(b[0], b[1]), "v2d");
  V2d z;
  VCHECK(z.x == 0 && z.y == 0, "v2d-default", "default vector is not zero");
  dbl_pair_classes(a, b, 2, "v2d");
}
static void run_v3d(const Case& c) {
  double a[3] = {dbl_operand(c, 0), dbl_operand(c, 1), dbl_operand(c, 2)}, b[3] = {dbl_operand(c, 3), dbl_operand(c, 4), dbl_operand(c, 5)};
  V3d va(a[0], a[1], a[2]), vb(b[0], b[1], b[2]);
  vec_laws<V3d, 3, double>(a, b, dbl_operand(c, 6), va, vb, "v3d");
  V3d cr = va.cross(vb);
  double e[3] = {a[1] * b[2] - a[2] * b[1], a[2] * b[0] - a[0] * b[2], a[0] * b[1] - a[1] * b[0]};
  VCHECK(same_value(cr.x, e[0]) && same_value(cr.y, e[1]) && same_value(cr.z, e[2]), "v3d-cross", "cross product is [", cr.x, ",", cr.y, ",", cr.z, "]");
  if (all_finite(a, 3) && all_finite(b, 3)) VCHECK(cr.dot(va) == 0 && cr.dot(vb) == 0, "v3d-cross-orthogonal", "cross product not orthogonal to its operands");
  VCHECK(V3d(V2d(a[0], a[1]), a[2]) == va, "v3d-from-v2", "Vector3(Vector2, z) differs");
  dbl_pair_classes(a, b, 3, "v3d");
}
static void run_v4d(const Case& c) {
  double a[4], b[4];
  for (size_t i = 0; i < 4; i++) {
    a[i] = dbl_operand(c, i);
    b[i] = dbl_operand(c, 4 + i);
  }
  V4d va(a[0], a[1], a[2], a[3]), vb(b[0], b[1], b[2], b[3]);
  vec_laws<V4d, 4, double>(a, b, dbl_operand(c, 8), va, vb, "v4d");
  VCHECK(V4d(V3d(a[0], a[1], a[2]), a[3]) == va && V4d(V2d(a[0], a[1]), a[2], a[3]) == va, "v4d-from-smaller", "widening constructors differ");
  dbl_pair_classes(a, b, 4, "v4d");
}
// transitivity of operator< (and of the equivalence it induces, which must be ==) on a triple; n = [dim, bit patterns of a.., b.., c..]
static void run_vtransd(const Case& c) {
  uint64_t dim = c.u(0);
  if (dim < 2 || dim > 4 || c.n.size() < 1 + 3 * dim) throw std::logic_error("short case");
  double q[12];
  for (size_t i = 0; i < 3 * dim; i++) q[i] = dbl_operand(c, 1 + i);
  auto chk = [&](auto mk) {
    auto A = mk(q), B = mk(q + dim), C = mk(q + 2 * dim);
    if ((A < B) && (B < C)) VCHECK(A < C, "less-transitive", "a<b, b<c but not a<c (dim ", dim, ")");
    bool iab = !(A < B) && !(B < A), ibc = !(B < C) && !(C < B), iac = !(A < C) && !(C < A);
    if (iab && ibc) VCHECK(iac, "less-incomparable-transitive", "equivalence induced by < not transitive");
    VCHECK(iab == (A == B) && ibc == (B == C) && iac == (A == C), cat("less-consistent-with-eq:v", dim, "d"), "two vectors are unordered by < but not ==, or the reverse (dim ", dim, ")");
    if ((A == B) && (B == C)) VCHECK(A == C, cat("eq-transitive:v", dim, "d"), "a==b, b==c but not a==c");
  };
  if (dim == 2) chk([](const double* p) { return V2d(p[0], p[1]); });
  else if (dim == 3) chk([](const double* p) { return V3d(p[0], p[1], p[2]); });
  else chk([](const double* p) { return V4d(p[0], p[1], p[2], p[3]); });
  ctx().nontrivial_case();
}

// Matrix4<double>: equality is the entrywise ==, products against the reference sums (entries are small dyadic values:
// every product and sum is exact, so the value does not depend on the order of accumulation; the sign of a zero result
// does, and == does not see it). case: n = bit patterns of [16 entries of A, 16 of B, 4 of v, scalar] (row-major)
static void run_m4d(const Case& c) {
  M4d A, B;
  double ra[4][4], rb[4][4], v[4];
  for (int r = 0; r < 4; r++)
    for (int k = 0; k < 4; k++) {
      ra[r][k] = dbl_operand(c, r * 4 + k);
      rb[r][k] = dbl_operand(c, 16 + r * 4 + k);
      if (!std::isfinite(ra[r][k]) || !std::isfinite(rb[r][k]) || fabs(ra[r][k]) > 16 || fabs(rb[r][k]) > 16) throw std::logic_error("entry outside the domain");
      A.m[k][r] = ra[r][k];
      B.m[k][r] = rb[r][k];
    }
  for (int k = 0; k < 4; k++) {
    v[k] = dbl_operand(c, 32 + k);
    if (!std::isfinite(v[k]) || fabs(v[k]) > 16) throw std::logic_error("entry outside the domain");
  }
  double s = dbl_operand(c, 36);
  if (!std::isfinite(s) || fabs(s) > 16) throw std::logic_error("scalar outside the domain");
  V4d vv(v[0], v[1], v[2], v[3]);
  auto eld = [](const M4d& m, int r, int k) { return m.m[k][r]; };
  double ab[4][4], bv[4], abv[4];
  bool same = true, zero_sign = false;
  for (int r = 0; r < 4; r++) {
    bv[r] = 0;
    for (int k = 0; k < 4; k++) {
      bv[r] += rb[r][k] * v[k];
      ab[r][k] = 0;
      for (int z = 0; z < 4; z++) ab[r][k] += ra[r][z] * rb[z][k];
      same &= (ra[r][k] == rb[r][k]);
      zero_sign |= (ra[r][k] == 0 && rb[r][k] == 0 && std::signbit(ra[r][k]) != std::signbit(rb[r][k]));
    }
  }
  for (int r = 0; r < 4; r++) {
    abv[r] = 0;
    for (int k = 0; k < 4; k++) abv[r] += ab[r][k] * v[k];
  }
  VCHECK((A == B) == same && (A != B) == !same && (B == A) == same, "m4d-eq", "== disagrees with entrywise equality");
  VCHECK(A == A && !(A != A), "m4d-eq-reflexive", "A != A");
  M4d AB = A * B;
  for (int r = 0; r < 4; r++)
    for (int k = 0; k < 4; k++) VCHECK(eld(AB, r, k) == ab[r][k], "m4d-product", "(A*B)[", r, "][", k, "] is ", eld(AB, r, k), " expected ", ab[r][k]);
  V4d Bv = B * vv;
  for (int r = 0; r < 4; r++) VCHECK(Bv.at(r) == bv[r], "m4d-vector-product", "(B*v)[", r, "] is ", Bv.at(r), " expected ", bv[r]);
  V4d l = (A * B) * vv, rr = A * (B * vv);
  for (int r = 0; r < 4; r++) VCHECK(l.at(r) == abv[r] && rr.at(r) == abv[r], "m4d-assoc-value", "row ", r, ": (AB)v = ", l.at(r), ", A(Bv) = ", rr.at(r), " expected ", abv[r]);
  VCHECK(l == rr && !(l != rr), "m4d-assoc", "(AB)v != A(Bv) by Vector4's own == although every component has the same value");
  M4d C = A;
  C *= B;
  VCHECK(C == AB, "m4d-mul-assign", "A *= B differs from A * B");
  M4d T = A.transposition();
  for (int r = 0; r < 4; r++)
    for (int k = 0; k < 4; k++) VCHECK(eld(T, r, k) == ra[k][r], "m4d-transpose", "transposition()[", r, "][", k, "]");
  VCHECK(T.transposition() == A, "m4d-transpose-twice", "transpose twice is not the identity");
  M4d T2 = A;
  T2.transpose();
  VCHECK(T2 == T, "m4d-transpose-inplace", "transpose() differs from transposition()");
  M4d I;
  VCHECK(A * I == A && I * A == A, "m4d-identity-product", "A*I != A by Matrix4's own ==");
  M4d S = A + B, D = A - B, D2 = (B - A) * -1.0, P = A * s;
  for (int r = 0; r < 4; r++)
    for (int k = 0; k < 4; k++) {
      VCHECK(eld(S, r, k) == ra[r][k] + rb[r][k], "m4d-add", "entry");
      VCHECK(eld(D, r, k) == ra[r][k] - rb[r][k], "m4d-sub", "entry");
      VCHECK(eld(P, r, k) == ra[r][k] * s, "m4d-scale", "entry");
    }
  VCHECK(D == D2 && !(D != D2), "m4d-antisymmetry", "A - B != (B - A) * -1 by Matrix4's own ==");
  VCHECK((A + B) == (B + A), "m4d-add-commutes", "A + B != B + A");
  VCHECK((A * 0.0) == (B * 0.0), "m4d-zero-scale", "A * 0 != B * 0");
  if (same && zero_sign) ctx().cls("m4d:equal-up-to-sign-of-zero");
  if (!(A == I) && !(B == I)) ctx().nontrivial_case();
}

// element (row r, column c) of a phosg matrix is m[c][r] (see operator*(Vector4))
static int64_t el(const M4& m, int r, int c) { return m.m[c][r]; }

// case: n = [16 entries of A, 16 of B, 4 of v] (row-major in the case encoding)
static void run_m4(const Case& c) {
  M4 A, B;
  int64_t ra[4][4], rb[4][4], v[4];
  for (int r = 0; r < 4; r++)
    for (int k = 0; k < 4; k++) {
      ra[r][k] = c.i(r * 4 + k);
      rb[r][k] = c.i(16 + r * 4 + k);
      A.m[k][r] = ra[r][k];
      B.m[k][r] = rb[r][k];
    }
  for (int k = 0; k < 4; k++) v[k] = c.i(32 + k);
  V4 vv(v[0], v[1], v[2], v[3]);
  // reference products
  int64_t ab[4][4], bv[4], abv[4], a_bv[4];
  for (int r = 0; r < 4; r++) {
    bv[r] = 0;
    for (int k = 0; k < 4; k++) {
      bv[r] += rb[r][k] * v[k];
      ab[r][k] = 0;
      for (int z = 0; z < 4; z++) ab[r][k] += ra[r][z] * rb[z][k];
    }
  }
  for (int r = 0; r < 4; r++) {
    abv[r] = 0;
    a_bv[r] = 0;
    for (int k = 0; k < 4; k++) {
      abv[r] += ab[r][k] * v[k];
      a_bv[r] += ra[r][k] * bv[k];
    }
  }
  M4 AB = A * B;
  for (int r = 0; r < 4; r++)
    for (int k = 0; k < 4; k++) VCHECK(el(AB, r, k) == ab[r][k], "m4-product", "(A*B)[", r, "][", k, "] is ", el(AB, r, k), " expected ", ab[r][k]);
  V4 Bv = B * vv;
  for (int r = 0; r < 4; r++) VCHECK(Bv.at(r) == bv[r], "m4-vector-product", "(B*v)[", r, "] is ", Bv.at(r), " expected ", bv[r]);
  V4 l = (A * B) * vv, rr = A * (B * vv);
  VCHECK(l == rr, "m4-assoc", "(AB)v != A(Bv)");
  for (int r = 0; r < 4; r++) VCHECK(l.at(r) == abv[r] && rr.at(r) == a_bv[r], "m4-assoc-value", "row ", r);
  M4 C = A;
  C *= B;
  VCHECK(C == AB, "m4-mul-assign", "A *= B differs from A * B");
  M4 T = A.transposition();
  for (int r = 0; r < 4; r++)
    for (int k = 0; k < 4; k++) VCHECK(el(T, r, k) == ra[k][r], "m4-transpose", "transposition()[", r, "][", k, "]");
  VCHECK(T.transposition() == A, "m4-transpose-twice", "transpose twice is not the identity");
  M4 T2 = A;
  T2.transpose();
  VCHECK(T2 == T, "m4-transpose-inplace", "transpose() differs from transposition()");
  VCHECK((A == B) == (memcmp(ra, rb, sizeof(ra)) == 0) && (A != B) == (memcmp(ra, rb, sizeof(ra)) != 0), "m4-eq", "== disagrees with entrywise equality");
  M4 I;
  for (int r = 0; r < 4; r++)
    for (int k = 0; k < 4; k++) VCHECK(el(I, r, k) == (r == k ? 1 : 0), "m4-identity", "default matrix is not the identity");
  VCHECK(A * I == A && I * A == A, "m4-identity-product", "A*I != A");
  int64_t s = c.i(36);
  M4 S = A + B, D = A - B, P = A * s;
  for (int r = 0; r < 4; r++)
    for (int k = 0; k < 4; k++) {
      VCHECK(el(S, r, k) == ra[r][k] + rb[r][k], "m4-add", "entry");
      VCHECK(el(D, r, k) == ra[r][k] - rb[r][k], "m4-sub", "entry");
      VCHECK(el(P, r, k) == ra[r][k] * s, "m4-scale", "entry");
    }
  // the other entrywise scalar operators, their compound forms, and the compound forms with an operand that is an
  // entry of the matrix itself (value taken when the operator is called)
  auto entries = [&](const M4& R, auto f, const char* op) {
    for (int r = 0; r < 4; r++)
      for (int k = 0; k < 4; k++) {
        int64_t e = f(ra[r][k]);
        VCHECK(el(R, r, k) == e, cat("m4-", op), "entry [", r, "][", k, "] is ", el(R, r, k), " expected ", e);
      }
  };
  auto scalar_ops = [&](int64_t sv, auto operand, const char* suffix) {
    // operand(M) yields the right-hand operand for an operation on M (a plain value, or a reference into M)
    M4 W = A;
    M4& ret = (W += operand(W));
    VCHECK(&ret == &W, "m4-compound-ref", "+= (scalar) does not return *this");
    entries(W, [&](int64_t x) { return x + sv; }, cat("add-scalar-assign", suffix).c_str());
    W = A;
    W -= operand(W);
    entries(W, [&](int64_t x) { return x - sv; }, cat("sub-scalar-assign", suffix).c_str());
    W = A;
    W *= operand(W);
    entries(W, [&](int64_t x) { return x * sv; }, cat("scale-assign", suffix).c_str());
    W = A;
    entries(W + operand(W), [&](int64_t x) { return x + sv; }, cat("add-scalar", suffix).c_str());
    entries(W - operand(W), [&](int64_t x) { return x - sv; }, cat("sub-scalar", suffix).c_str());
    entries(W * operand(W), [&](int64_t x) { return x * sv; }, cat("scale", suffix).c_str());
    if (sv != 0) {
      entries(W / operand(W), [&](int64_t x) { return x / sv; }, cat("div-scalar", suffix).c_str());
      entries(W % operand(W), [&](int64_t x) { return x % sv; }, cat("mod-scalar", suffix).c_str());
      VCHECK(W == A, "m4-binary-op-modified-operand", "a non-compound scalar operator changed its left operand");
      W /= operand(W);
      entries(W, [&](int64_t x) { return x / sv; }, cat("div-scalar-assign", suffix).c_str());
      W = A;
      W %= operand(W);
      entries(W, [&](int64_t x) { return x % sv; }, cat("mod-scalar-assign", suffix).c_str());
    }
  };
  scalar_ops(s, [&](M4&) -> int64_t { return s; }, "");
  for (int z = 0; z < 16; z++) {
    int64_t sv = A.v[z];
    scalar_ops(sv, [z](M4& W) -> int64_t& { return W.v[z]; }, "-aliased");
  }
  {
    M4 W = A;
    W += W;
    entries(W, [&](int64_t x) { return x + x; }, "add-assign-self");
    W = A;
    W -= W;
    entries(W, [&](int64_t) { return int64_t(0); }, "sub-assign-self");
  }
  if (!(A == B) && !(A == I) && !(B == I)) ctx().nontrivial_case();
}

// case: n = [16 doubles as bit patterns], strictly row- and column-diagonally dominant.
// Diagonal dominance, the conditioning of M and the residual M*inverse(M) - I are all invariant under M -> cM, so the
// same absolute tolerance on the (dimensionless) product applies at every global scale of M; the generator keeps the
// scale within 2^-900..2^900 so that neither M nor its inverse leaves the normal double range.
static void run_m4inv(const Case& c) {
  phosg::Matrix4<double> M;
  double a[4][4];
  for (int r = 0; r < 4; r++)
    for (int k = 0; k < 4; k++) {
      a[r][k] = c.d(r * 4 + k);
      M.m[k][r] = a[r][k];
    }
  for (int r = 0; r < 4; r++) {
    double row = 0, col = 0;
    for (int k = 0; k < 4; k++)
      if (k != r) {
        row += fabs(a[r][k]);
        col += fabs(a[k][r]);
      }
    if (!(fabs(a[r][r]) > row && fabs(a[r][r]) > col)) throw std::logic_error("matrix not diagonally dominant");
  }
  phosg::Matrix4<double> Inv;
  try {
    Inv = M.inverse();
  } catch (const std::exception& e) {
    // a strictly diagonally dominant matrix is invertible (Levy-Desplanques): refusing it is a failure of the law
    VFAIL("m4-inverse-threw", "inverse() of a strictly diagonally dominant matrix threw ", exception_name(e), ": ", e.what(), " (diagonal ", a[0][0], ", ", a[1][1], ", ", a[2][2], ", ", a[3][3], ")");
  }
  phosg::Matrix4<double> P = M * Inv, Q = Inv * M;
  for (int r = 0; r < 4; r++)
    for (int k = 0; k < 4; k++) {
      double e = (r == k) ? 1.0 : 0.0;
      VCHECK(fabs(P.m[k][r] - e) < 1e-9, "m4-inverse", "(M*inverse(M))[", r, "][", k, "] = ", P.m[k][r]);
      VCHECK(fabs(Q.m[k][r] - e) < 1e-9, "m4-inverse-left", "(inverse(M)*M)[", r, "][", k, "] = ", Q.m[k][r]);
    }
  phosg::Matrix4<double> M2 = M;
  M2.invert();
  VCHECK(M2 == Inv, "m4-invert-inplace", "invert() differs from inverse()");
  {
    double dmin = fabs(a[0][0]);
    for (int r = 1; r < 4; r++) dmin = std::min(dmin, fabs(a[r][r]));
    int ex = 0;
    frexp(dmin, &ex);
    ctx().cls(ex < -300 ? "m4inv:diagonal<2^-300" : ex < -40 ? "m4inv:diagonal<2^-40" : ex <= 40 ? "m4inv:diagonal~1" : ex <= 300 ? "m4inv:diagonal>2^40" : "m4inv:diagonal>2^300");
  }
  ctx().nontrivial_case();
}

// ---------------------------------------------------------------- generators

static uint64_t gen_in_type(uint64_t code) {
  uint64_t mx = type_max(code);
  uint64_t v;
  switch (vg::below(4)) {
    case 0: v = vg::below(301); break;
    case 1: v = mx - vg::below(4); break;
    case 2: v = vg::interesting64(); break;
    default: v = vg::u64(); break;
  }
  if (v > mx) v &= mx;
  return v;
}

// Worst-case inputs of Euclid's algorithm: a pair built backwards from (g, 0) through a continued fraction with small
// partial quotients, h_{n+1} = q_n * h_n + h_{n-1} (all ones = consecutive Fibonacci numbers times g: the longest remainder
// sequence for operands of that size, about 1.44 * log2(max) steps), carried on until the type's maximum unless cut short.
static void euclid_chain(uint64_t code, uint64_t g, uint64_t max_steps, const std::function<uint64_t()>& quotient, uint64_t* a, uint64_t* b) {
  uint64_t mx = type_max(code);
  uint64_t lo = 0, hi = g;
  for (uint64_t n = 0; n < max_steps; n++) {
    uint64_t q = quotient();
    if (q == 0 || hi == 0 || q > (mx - lo) / hi) break; // q * hi + lo would leave the type
    uint64_t nxt = q * hi + lo;
    lo = hi;
    hi = nxt;
  }
  *a = hi;
  *b = lo;
}

static Case gen_gcd() {
  uint64_t code = vg::below(8);
  if (vg::chance(1, 4)) {
    uint64_t g = vg::coin() ? 1 : vg::chance(1, 2) ? 1 + vg::below(12) : 1 + vg::below(1000);
    if (g > type_max(code)) g = 1;
    uint64_t steps = vg::chance(3, 4) ? 200 : vg::below(100);
    uint64_t style = vg::below(4);
    uint64_t a, b;
    euclid_chain(code, g, steps, [&]() -> uint64_t {
      switch (style) {
        case 0: return 1; // Fibonacci-type
        case 1: return vg::chance(7, 8) ? 1 : 2 + vg::below(3);
        case 2: return 1 + vg::below(3);
        default: return vg::chance(1, 16) ? 1 + vg::below(1000) : 1 + vg::below(2);
      }
    }, &a, &b);
    ctx().cls("gcd:euclid-worst-case-chain");
    return vg::coin() ? Case("gcd").N(code).N(a).N(b) : Case("gcd").N(code).N(b).N(a);
  }
  uint64_t a = gen_in_type(code), b = gen_in_type(code);
  if (vg::chance(1, 3)) {
    // force a common factor
    uint64_t f = 1 + vg::below(1000);
    uint64_t mx = type_max(code);
    if (f <= mx) {
      uint64_t q = mx / f; // largest multiplier that keeps the product inside the type
      a = (q == UINT64_MAX ? a : a % (q + 1)) * f;
      b = (q == UINT64_MAX ? b : b % (q + 1)) * f;
    }
  }
  return Case("gcd").N(code).N(a).N(b);
}
static Case gen_log2i() {
  uint64_t code = vg::below(8);
  uint64_t v = gen_in_type(code);
  if (v == 0) v = 1;
  return Case("log2i").N(code).N(v);
}
static Case gen_random_int() {
  int64_t lo, hi;
  uint64_t span;
  switch (vg::below(6)) {
    case 0: span = vg::below(5); break;
    case 1: span = vg::pick<uint64_t>({0xFE, 0xFF, 0x100, 0xFFFE, 0xFFFF, 0x10000, 0xFFFFFFFEULL, 0xFFFFFFFFULL, 0x100000000ULL}); break;
    case 2: span = (1ULL << 63) - 1 - vg::below(3); break;
    case 3: span = vg::below(70000); break;
    default: span = vg::u64() >> (1 + vg::below(63)); break;
  }
  if (span >= (1ULL << 63)) span = (1ULL << 63) - 1;
  switch (vg::below(4)) {
    case 0: lo = INT64_MIN; break;
    case 1: lo = static_cast<int64_t>(static_cast<uint64_t>(INT64_MAX) - span); break;
    case 2: lo = -static_cast<int64_t>(span / 2); break;
    default: {
      // anywhere such that hi does not overflow
      uint64_t room = static_cast<uint64_t>(INT64_MAX) - span; // lo in [INT64_MIN, INT64_MAX - span]
      uint64_t off = vg::u64();
      uint64_t width = room + (1ULL << 63) + 1; // number of admissible lows (may wrap to 0 == 2^64)
      if (width != 0) off %= width;
      lo = static_cast<int64_t>(static_cast<uint64_t>(INT64_MIN) + off);
    }
  }
  hi = static_cast<int64_t>(static_cast<uint64_t>(lo) + span);
  return Case("random_int").I(lo).I(hi).N(200);
}
static uint64_t gen_data_size() {
  switch (vg::below(4)) {
    case 0: return vg::below(40);
    case 1: return 4090 + vg::below(12);
    case 2: return 8186 + vg::below(12);
    default: return vg::below(9001);
  }
}
// many pools long: 2^k-1, 2^k, 2^k+1 for 2^12..2^18
static uint64_t gen_big_size(uint64_t max_log) {
  return (1ULL << (12 + vg::below(max_log - 11))) - 1 + vg::below(3);
}
static Case gen_random_data() {
  Case c("random_data");
  uint64_t calls = 1 + vg::below(6);
  for (uint64_t k = 0; k < calls; k++) c.N(vg::chance(1, 24) ? gen_big_size(18) : gen_data_size());
  return c;
}
static Case gen_random_data_nofd() {
  Case c("random_data_nofd");
  uint64_t calls = 1 + vg::below(5);
  c.N(vg::chance(1, 3) ? vg::below(calls) : calls);
  for (uint64_t k = 0; k < calls; k++) {
    switch (vg::below(5)) {
      case 0: c.N(gen_data_size()); break;
      case 1: c.N(gen_big_size(16)); break;
      case 2: c.N((1 + vg::below(64)) * vg::pick<uint64_t>({16, 64, 256, 512, 1024, 4096})); break; // whole blocks of the usual block sizes
      case 3: c.N((1ULL << vg::below(17)) - 1 + vg::below(3)); break; // 2^k - 1, 2^k, 2^k + 1 from 1 byte up
      default: c.N(vg::below(600)); break;
    }
  }
  return c;
}
static void enum_random_data_nofd(Enum& e) {
  static const uint64_t sizes[] = {0, 1, 8, 31, 32, 33, 64, 255, 256, 257, 511, 512, 513, 768, 1024, 4095, 4096, 4097, 8192, 12288, 65535, 65536, 65537, 1 << 18};
  uint64_t idx = 0;
  for (uint64_t sz : sizes) {
    if (!e.mine(idx++)) continue;
    e.exec(Case("random_data_nofd").N(1).N(sz)); // never restored
    e.exec(Case("random_data_nofd").N(1).N(8).N(sz)); // first call small, descriptors available again before the second
    e.exec(Case("random_data_nofd").N(2).N(8).N(sz)); // first call small, still no descriptors at the second
  }
  e.complete("24 request sizes (0, 1, 2^k and 2^k+-1 around 32, 256, 512, 4096, 65536, multiples of 256 and of 4096) as the first request of a process that cannot open /dev/urandom, and as the second request after an 8-byte one, still inside the empty root / back in the real root");
}
static Case gen_random_data_sig() {
  Case c("random_data_sig");
  c.N(vg::pick<uint64_t>({10, 20, 50, 100, 200, 500}));
  uint64_t calls = 2 + vg::below(4);
  uint64_t big_at = vg::below(calls); // at least one request of many pages
  for (uint64_t k = 0; k < calls; k++) {
    if (k == big_at) c.N(vg::coin() ? gen_big_size(20) : 8192 + vg::below((1 << 20) - 8192 + 1));
    else c.N(vg::chance(1, 4) ? gen_big_size(18) : gen_data_size());
  }
  return c;
}
static Case gen_v4() {
  Case c("v4");
  for (int k = 0; k < 8; k++) c.I(vg::range(-4, 4));
  c.I(vg::range(-4, 4));
  // ties on a prefix make the order interesting
  if (vg::coin()) {
    uint64_t p = vg::below(4);
    for (uint64_t k = 0; k <= p && k < 4; k++) c.n[4 + k] = c.n[k];
  }
  return c;
}
static Case gen_vtrans() {
  uint64_t dim = 2 + vg::below(3);
  Case c("vtrans");
  c.N(dim);
  for (uint64_t k = 0; k < 3 * dim; k++) c.I(vg::range(-1, 1));
  return c;
}
static Case gen_m4() {
  Case c("m4");
  for (int k = 0; k < 36; k++) c.I(vg::range(-9, 9));
  c.I(vg::range(-9, 9));
  return c;
}
static Case gen_m4inv() {
  double a[4][4];
  for (int r = 0; r < 4; r++)
    for (int k = 0; k < 4; k++) a[r][k] = (static_cast<double>(vg::range(-1000, 1000)) / 100.0);
  for (int r = 0; r < 4; r++) {
    double row = 0, col = 0;
    for (int k = 0; k < 4; k++)
      if (k != r) {
        row += fabs(a[r][k]);
        col += fabs(a[k][r]);
      }
    double d = std::max(row, col) + 0.01 + static_cast<double>(vg::below(5000)) / 100.0;
    a[r][r] = vg::coin() ? d : -d;
  }
  // global scale: dominance is scale invariant. Powers of two scale exactly; decimal factors round every entry by
  // at most half an ulp, far inside the dominance margin (>= 0.01 on sums below 100, i.e. 1e-4 relative).
  double scale = 1.0;
  switch (vg::below(4)) {
    case 0: break;
    case 1: scale = ldexp(1.0, static_cast<int>(vg::range(-900, 900))); break;
    case 2: scale = pow(10.0, static_cast<double>(vg::range(-270, 270))); break;
    default: scale = ldexp(1.0 + static_cast<double>(vg::below(1000)) / 1000.0, static_cast<int>(vg::range(-80, 80))); break;
  }
  Case c("m4inv");
  for (int r = 0; r < 4; r++)
    for (int k = 0; k < 4; k++) c.D(a[r][k] * scale);
  return c;
}

// components for the double instantiations: signed zeros, small dyadic values (exact arithmetic), infinities
static double gen_dcomp(bool with_inf) {
  switch (vg::below(with_inf ? 8 : 7)) {
    case 0: case 1: return 0.0;
    case 2: case 3: return -0.0;
    case 7: return vg::coin() ? INFINITY : -INFINITY;
    default: return vg::pick<double>({1.0, -1.0, 0.5, -0.5, 1.5, -1.5, 2.0, -2.0, 3.0, -3.0, 4.0, -4.0});
  }
}
// the second operand: fresh, or the first one with the sign of some zeros flipped (equal as values, different as bytes)
// and possibly one component changed
static void gen_dsecond(const double* a, double* b, size_t n, bool with_inf) {
  if (vg::coin()) {
    for (size_t i = 0; i < n; i++) b[i] = gen_dcomp(with_inf);
    return;
  }
  for (size_t i = 0; i < n; i++) b[i] = (a[i] == 0 && vg::coin()) ? -a[i] : a[i];
  if (vg::chance(1, 3)) b[vg::below(n)] = gen_dcomp(with_inf);
}
static Case gen_vd(const char* name, size_t dim) {
  double a[4], b[4];
  for (size_t i = 0; i < dim; i++) a[i] = gen_dcomp(true);
  gen_dsecond(a, b, dim, true);
  Case c(name);
  for (size_t i = 0; i < dim; i++) c.D(a[i]);
  for (size_t i = 0; i < dim; i++) c.D(b[i]);
  c.D(vg::pick<double>({0.0, -0.0, 1.0, -1.0, 0.5, -2.0, 3.0, INFINITY, -INFINITY}));
  return c;
}
static Case gen_v2d() { return gen_vd("v2d", 2); }
static Case gen_v3d() { return gen_vd("v3d", 3); }
static Case gen_v4d() { return gen_vd("v4d", 4); }
static Case gen_vtransd() {
  uint64_t dim = 2 + vg::below(3);
  Case c("vtransd");
  c.N(dim);
  for (uint64_t k = 0; k < 3 * dim; k++) c.D(vg::pick<double>({0.0, -0.0, 0.0, -0.0, 1.0, -1.0, INFINITY, -INFINITY}));
  return c;
}
static Case gen_m4d() {
  double a[16], b[16];
  for (int k = 0; k < 16; k++) a[k] = gen_dcomp(false);
  gen_dsecond(a, b, 16, false);
  Case c("m4d");
  for (int k = 0; k < 16; k++) c.D(a[k]);
  for (int k = 0; k < 16; k++) c.D(b[k]);
  for (int k = 0; k < 4; k++) c.D(gen_dcomp(false));
  c.D(vg::pick<double>({0.0, -0.0, 1.0, -1.0, 0.5, -2.0, 3.0}));
  return c;
}

// ---------------------------------------------------------------- enumerators

static void enum_gcd(Enum& e) {
  uint64_t lim = 300;
  uint64_t idx = 0;
  for (uint64_t code = 0; code < 8 && !e.stop; code++) {
    uint64_t mx = std::min<uint64_t>(lim, type_max(code));
    for (uint64_t a = 0; a <= mx && !e.stop; a++, idx++) {
      if (!e.mine(idx)) continue;
      for (uint64_t b = 0; b <= mx; b++) e.exec(Case("gcd").N(code).N(a).N(b));
    }
    // boundary values pairwise
    std::vector<uint64_t> bv;
    uint64_t tm = type_max(code);
    for (int k = 0; k < 64; k++) {
      uint64_t p = 1ULL << k;
      for (uint64_t v : {p - 1, p, p + 1})
        if (v <= tm) bv.push_back(v);
    }
    for (uint64_t v : {tm, tm - 1, tm - 2, tm / 2, tm / 3 * 3}) bv.push_back(v);
    std::sort(bv.begin(), bv.end());
    bv.erase(std::unique(bv.begin(), bv.end()), bv.end());
    for (size_t i = 0; i < bv.size() && !e.stop; i++, idx++) {
      if (!e.mine(idx)) continue;
      for (size_t j = 0; j < bv.size(); j++) e.exec(Case("gcd").N(code).N(bv[i]).N(bv[j]));
    }
  }
  // worst-case inputs of Euclid's algorithm: consecutive terms of every additive sequence x_{n+1} = x_n + x_{n-1} from seeds
  // 0 <= x_0 <= x_1 <= 6 (Fibonacci, Lucas, ...) up to the type's maximum, times the common factors 1,2,3,5,7, both orders
  for (uint64_t code = 0; code < 8 && !e.stop; code++) {
    uint64_t tm = type_max(code);
    for (uint64_t s0 = 0; s0 <= 6 && !e.stop; s0++)
      for (uint64_t s1 = std::max<uint64_t>(s0, 1); s1 <= 6 && !e.stop; s1++, idx++) {
        if (!e.mine(idx)) continue;
        uint64_t x = s0, y = s1;
        while (y <= tm) {
          for (uint64_t f : {1, 2, 3, 5, 7}) {
            if (y > tm / f) break;
            e.exec(Case("gcd").N(code).N(y * f).N(x * f));
            e.exec(Case("gcd").N(code).N(x * f).N(y * f));
          }
          if (y > tm - x) break;
          uint64_t nxt = x + y;
          x = y;
          y = nxt;
        }
      }
  }
  e.complete(cat("all pairs in [0,", lim, "]^2 and all pairs of {2^k-1,2^k,2^k+1,max,max-1,max-2,max/2} for each of u8..u64,s8..s64; consecutive terms of every "
                 "additive sequence x(n+1)=x(n)+x(n-1) with seeds 0<=x0<=x1<=6 up to the maximum of each type, times common factors 1,2,3,5,7, both orders "
                 "(worst case of Euclid's algorithm)"));
}

static void enum_log2i(Enum& e) {
  uint64_t idx = 0;
  for (uint64_t code = 0; code < 8 && !e.stop; code++) {
    uint64_t tm = type_max(code);
    // every value of the 8/16-bit types
    if (tm <= 0xFFFF) {
      for (uint64_t v = 1; v <= tm && !e.stop; v++, idx++)
        if (e.mine(idx)) e.exec(Case("log2i").N(code).N(v));
    }
    for (int k = 0; k < 64; k++) {
      uint64_t p = 1ULL << k;
      for (uint64_t v : {p - 1, p, p + 1}) {
        if (v >= 1 && v <= tm && e.mine(idx++)) e.exec(Case("log2i").N(code).N(v));
      }
    }
    if (e.mine(idx++)) e.exec(Case("log2i").N(code).N(tm));
  }
  std::string desc = "every value of u8/s8/u16/s16; every 2^k-1, 2^k, 2^k+1 and max of all eight types";
  if (e.thorough()) {
    // every positive 32-bit value (u32 and s32), block-journalled hot loop
    const uint64_t block = 1ULL << 22;
    for (uint64_t b = 0; b < (1ULL << 32) / block && !e.stop; b++) {
      if (!e.mine(b)) continue;
      e.journal_block(Case("log2i").N(2).N(b * block + 1));
      uint64_t lo = b * block, hi = lo + block;
      for (uint64_t v = std::max<uint64_t>(lo, 1); v < hi; v++) {
        uint32_t r = phosg::log2i<uint32_t>(static_cast<uint32_t>(v));
        uint32_t ex = 31 - __builtin_clz(static_cast<uint32_t>(v) | 0) ;
        // independent of the implementation's formula: verify by the defining inequality 2^r <= v < 2^(r+1)
        bool ok = (r < 32) && ((v >> r) == 1);
        (void)ex;
        if (!ok) {
          e.exec_light(Case("log2i").N(2).N(v));
          break;
        }
        if (v <= 0x7FFFFFFF) {
          int32_t rs = phosg::log2i<int32_t>(static_cast<int32_t>(v));
          if (!(rs >= 0 && rs < 31 && ((v >> rs) == 1))) {
            e.exec_light(Case("log2i").N(6).N(v));
            break;
          }
        }
      }
      e.x.count(block + (lo < 0x80000000ULL ? block : 0));
    }
    desc += "; every positive value of u32 and s32";
  }
  e.complete(desc);
}

static void enum_vectors(Enum& e) {
  const int64_t R = 4;
  uint64_t idx = 0;
  // Vector2: all pairs, scalar k over a small set
  for (int64_t ax = -R; ax <= R && !e.stop; ax++)
    for (int64_t ay = -R; ay <= R; ay++, idx++) {
      if (!e.mine(idx)) continue;
      for (int64_t bx = -R; bx <= R; bx++)
        for (int64_t by = -R; by <= R; by++)
          for (int64_t k : {-3, 0, 1, 2}) e.exec(Case("v2").I(ax).I(ay).I(bx).I(by).I(k));
    }
  e.complete(cat("all pairs of Vector2 with components in [-", R, ",", R, "] x scalar in {-3,0,1,2}"));
}
static void enum_v3(Enum& e) {
  const int64_t R = e.thorough() ? 4 : 3;
  uint64_t idx = 0;
  for (int64_t ax = -R; ax <= R && !e.stop; ax++)
    for (int64_t ay = -R; ay <= R; ay++)
      for (int64_t az = -R; az <= R; az++, idx++) {
        if (!e.mine(idx)) continue;
        for (int64_t bx = -R; bx <= R; bx++)
          for (int64_t by = -R; by <= R; by++)
            for (int64_t bz = -R; bz <= R; bz++) e.exec(Case("v3").I(ax).I(ay).I(az).I(bx).I(by).I(bz).I(((ax + by + bz) % 3) + 2 * ((ax ^ bz) & 1) - 1));
      }
  e.complete(cat("all pairs of Vector3 with components in [-", R, ",", R, "]"));
}
static void enum_vtrans(Enum& e) {
  // all triples over {-1,0,1}^2 (729^... 9^3 = 729 triples) and {-1,0,1}^3 (27^3 = 19683 triples)
  uint64_t idx = 0;
  for (uint64_t dim = 2; dim <= 3; dim++) {
    uint64_t comps = 3 * dim, total = 1;
    for (uint64_t k = 0; k < comps; k++) total *= 3;
    for (uint64_t code = 0; code < total && !e.stop; code++, idx++) {
      if (!e.mine(idx)) continue;
      Case c("vtrans");
      c.N(dim);
      uint64_t t = code;
      for (uint64_t k = 0; k < comps; k++) {
        c.I(static_cast<int64_t>(t % 3) - 1);
        t /= 3;
      }
      e.exec(c);
    }
  }
  e.complete("all triples of Vector2 and Vector3 over {-1,0,1} components (transitivity of <)");
}

static void enum_v2d(Enum& e) {
  const double set[8] = {0.0, -0.0, 1.0, -1.0, 0.5, 2.0, INFINITY, -INFINITY};
  uint64_t idx = 0;
  for (double ax : set)
    for (double ay : set) {
      if (e.stop) break;
      if (!e.mine(idx++)) continue;
      for (double bx : set)
        for (double by : set)
          for (double k : {-0.0, 1.0, -2.0, 0.5}) e.exec(Case("v2d").D(ax).D(ay).D(bx).D(by).D(k));
    }
  e.complete("all pairs of Vector2<double> with components in {+0,-0,1,-1,0.5,2,+inf,-inf} x scalar in {-0,1,-2,0.5}");
}
static void enum_v3d(Enum& e) {
  const double set[4] = {0.0, -0.0, 1.0, -1.5};
  const double ks[5] = {-0.0, 1.0, -2.0, 0.5, INFINITY};
  uint64_t idx = 0;
  for (uint64_t code = 0; code < 4096 && !e.stop; code++) {
    if (!e.mine(idx++)) continue;
    Case c("v3d");
    uint64_t t = code;
    for (int k = 0; k < 6; k++) {
      c.D(set[t % 4]);
      t /= 4;
    }
    c.D(ks[code % 5]);
    e.exec(c);
  }
  e.complete("all pairs of Vector3<double> with components in {+0,-0,1,-1.5}");
}
static void enum_v4d(Enum& e) {
  const double set[3] = {0.0, -0.0, 1.0};
  const double ks[5] = {-0.0, 1.0, -2.0, 0.5, INFINITY};
  uint64_t idx = 0;
  for (uint64_t code = 0; code < 6561 && !e.stop; code++) {
    if (!e.mine(idx++)) continue;
    Case c("v4d");
    uint64_t t = code;
    for (int k = 0; k < 8; k++) {
      c.D(set[t % 3]);
      t /= 3;
    }
    c.D(ks[code % 5]);
    e.exec(c);
  }
  e.complete("all pairs of Vector4<double> with components in {+0,-0,1}");
}
static void enum_vtransd(Enum& e) {
  const double set[4] = {0.0, -0.0, 1.0, -1.0};
  uint64_t idx = 0;
  for (uint64_t dim = 2; dim <= 3; dim++) {
    uint64_t base = dim == 2 ? 4 : 3, comps = 3 * dim, total = 1;
    for (uint64_t k = 0; k < comps; k++) total *= base;
    for (uint64_t code = 0; code < total && !e.stop; code++, idx++) {
      if (!e.mine(idx)) continue;
      Case c("vtransd");
      c.N(dim);
      uint64_t t = code;
      for (uint64_t k = 0; k < comps; k++) {
        c.D(set[t % base]);
        t /= base;
      }
      e.exec(c);
    }
  }
  e.complete("all triples of Vector2<double> over {+0,-0,1,-1} and of Vector3<double> over {+0,-0,1} components (transitivity of < and of the equivalence it induces, which must be ==)");
}

int main(int argc, char** argv) {
  if (argc >= 2 && strcmp(argv[1], "--c20-nofd-child") == 0) return nofd_child(argc, argv);
  std::vector<SubCheck> checks;
  checks.push_back({"gcd", run_gcd, gen_gcd, 200000, 1500000, 100, enum_gcd});
  checks.push_back({"log2i", run_log2i, gen_log2i, 100000, 500000, 100, enum_log2i});
  checks.push_back({"random_int", run_random_int, gen_random_int, 12000, 60000, 100, nullptr});
  checks.push_back({"random_data", run_random_data, gen_random_data, 4000, 30000, 100, nullptr});
  checks.push_back({"random_data_sig", run_random_data_sig, gen_random_data_sig, 1200, 8000, 100, nullptr});
  checks.push_back({"random_data_nofd", run_random_data_nofd, gen_random_data_nofd, 400, 3000, 100, enum_random_data_nofd});
  checks.push_back({"v2", run_v2, nullptr, 0, 0, 100, enum_vectors});
  checks.push_back({"v3", run_v3, nullptr, 0, 0, 100, enum_v3});
  checks.push_back({"v4", run_v4, gen_v4, 100000, 400000, 100, nullptr});
  checks.push_back({"vtrans", run_vtrans, gen_vtrans, 20000, 100000, 100, enum_vtrans});
  checks.push_back({"v2d", run_v2d, gen_v2d, 20000, 100000, 100, enum_v2d});
  checks.push_back({"v3d", run_v3d, gen_v3d, 30000, 150000, 100, enum_v3d});
  checks.push_back({"v4d", run_v4d, gen_v4d, 50000, 250000, 100, enum_v4d});
  checks.push_back({"vtransd", run_vtransd, gen_vtransd, 20000, 100000, 100, enum_vtransd});
  checks.push_back({"m4", run_m4, gen_m4, 50000, 300000, 100, nullptr});
  checks.push_back({"m4d", run_m4d, gen_m4d, 40000, 250000, 100, nullptr});
  checks.push_back({"m4inv", run_m4inv, gen_m4inv, 50000, 300000, 100, nullptr});
  return main_(argc, argv, checks);
}
