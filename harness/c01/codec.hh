// Shared by the C01 and C02 harnesses: tables of the typed accessors of StringWriter / BufferWriter /
// StringReader, and an independent encoder / decoder for their byte layouts.
#pragma once

#include <bit>
#include <memory>

#include <phosg/Encoding.hh>
#include <phosg/Strings.hh>

#include "verif.hh"

using namespace verif;
using phosg::BitReader;
using phosg::BitWriter;
using phosg::BufferWriter;
using phosg::StringReader;
using phosg::StringWriter;

static const bool kHostLittle = (std::endian::native == std::endian::little);

enum : unsigned { T_U8, T_S8, T_U16, T_S16, T_U32, T_S32, T_U64, T_S64, T_F32, T_F64, T_COUNT };
enum : unsigned { F_NATIVE, F_REV, F_BIG, F_LITTLE };
static const unsigned kWidth[T_COUNT] = {1, 1, 2, 2, 4, 4, 8, 8, 4, 8};
static const bool kSigned[T_COUNT] = {false, true, false, true, false, true, false, true, false, false};
static const char* kTypeName[T_COUNT] = {"u8", "s8", "u16", "s16", "u32", "s32", "u64", "s64", "f32", "f64"};
static const char* kFormName[4] = {"", "r", "b", "l"};

static uint64_t width_mask(unsigned w) { return w >= 8 ? UINT64_MAX : ((1ULL << (8 * w)) - 1); }

template <typename T>
static T from_bits(uint64_t b) {
  if constexpr (std::is_same_v<T, float>) {
    uint32_t u = static_cast<uint32_t>(b);
    float v;
    memcpy(&v, &u, 4);
    return v;
  } else if constexpr (std::is_same_v<T, double>) {
    double v;
    memcpy(&v, &b, 8);
    return v;
  } else {
    return static_cast<T>(b);
  }
}

// value as returned by an accessor -> canonical 64-bit form: bit pattern for floats,
// sign-extended for signed integers, zero-extended for unsigned ones
template <typename T>
static uint64_t to_ext(T v) {
  if constexpr (std::is_same_v<T, float>) {
    uint32_t u;
    memcpy(&u, &v, 4);
    return u;
  } else if constexpr (std::is_same_v<T, double>) {
    uint64_t u;
    memcpy(&u, &v, 8);
    return u;
  } else if constexpr (std::is_signed_v<T>) {
    return static_cast<uint64_t>(static_cast<int64_t>(v));
  } else {
    return static_cast<uint64_t>(v);
  }
}

#define C01_SCALARS(X)                                                                                               \
  X(T_U8, F_NATIVE, u8, uint8_t)                                                                                     \
  X(T_S8, F_NATIVE, s8, int8_t)                                                                                      \
  X(T_U16, F_NATIVE, u16, uint16_t) X(T_U16, F_REV, u16r, uint16_t) X(T_U16, F_BIG, u16b, uint16_t) X(T_U16, F_LITTLE, u16l, uint16_t) \
  X(T_S16, F_NATIVE, s16, int16_t) X(T_S16, F_REV, s16r, int16_t) X(T_S16, F_BIG, s16b, int16_t) X(T_S16, F_LITTLE, s16l, int16_t)     \
  X(T_U32, F_NATIVE, u32, uint32_t) X(T_U32, F_REV, u32r, uint32_t) X(T_U32, F_BIG, u32b, uint32_t) X(T_U32, F_LITTLE, u32l, uint32_t) \
  X(T_S32, F_NATIVE, s32, int32_t) X(T_S32, F_REV, s32r, int32_t) X(T_S32, F_BIG, s32b, int32_t) X(T_S32, F_LITTLE, s32l, int32_t)     \
  X(T_U64, F_NATIVE, u64, uint64_t) X(T_U64, F_REV, u64r, uint64_t) X(T_U64, F_BIG, u64b, uint64_t) X(T_U64, F_LITTLE, u64l, uint64_t) \
  X(T_S64, F_NATIVE, s64, int64_t) X(T_S64, F_REV, s64r, int64_t) X(T_S64, F_BIG, s64b, int64_t) X(T_S64, F_LITTLE, s64l, int64_t)     \
  X(T_F32, F_NATIVE, f32, float) X(T_F32, F_REV, f32r, float) X(T_F32, F_BIG, f32b, float) X(T_F32, F_LITTLE, f32l, float)             \
  X(T_F64, F_NATIVE, f64, double) X(T_F64, F_REV, f64r, double) X(T_F64, F_BIG, f64b, double) X(T_F64, F_LITTLE, f64l, double)

// reader side: (type, big?, name, return type)
#define C01_READERS(X)                                                  \
  X(T_U8, 0, u8, uint8_t)                                               \
  X(T_S8, 0, s8, int8_t)                                                \
  X(T_U16, 1, u16b, uint16_t) X(T_U16, 0, u16l, uint16_t)               \
  X(T_S16, 1, s16b, int16_t) X(T_S16, 0, s16l, int16_t)                 \
  X(T_U32, 1, u32b, uint32_t) X(T_U32, 0, u32l, uint32_t)               \
  X(T_S32, 1, s32b, int32_t) X(T_S32, 0, s32l, int32_t)                 \
  X(T_U64, 1, u64b, uint64_t) X(T_U64, 0, u64l, uint64_t)               \
  X(T_S64, 1, s64b, int64_t) X(T_S64, 0, s64l, int64_t)                 \
  X(T_F32, 1, f32b, float) X(T_F32, 0, f32l, float)                     \
  X(T_F64, 1, f64b, double) X(T_F64, 0, f64l, double)

static bool valid_scalar(unsigned type, unsigned form) {
  if (type >= T_COUNT || form > 3) return false;
  if (kWidth[type] == 1 && form != F_NATIVE) return false;
  return true;
}

template <typename W>
static void do_put(W& w, unsigned type, unsigned form, uint64_t bits) {
  switch ((form << 4) | type) {
#define X(t, f, name, T) \
  case ((f) << 4) | (t): w.put_##name(from_bits<T>(bits)); return;
    C01_SCALARS(X)
#undef X
  }
  throw std::logic_error("bad scalar kind");
}
template <typename W>
static void do_pput(W& w, size_t off, unsigned type, unsigned form, uint64_t bits) {
  switch ((form << 4) | type) {
#define X(t, f, name, T) \
  case ((f) << 4) | (t): w.pput_##name(off, from_bits<T>(bits)); return;
    C01_SCALARS(X)
#undef X
  }
  throw std::logic_error("bad scalar kind");
}
static std::string scalar_name(unsigned type, unsigned form) { return cat(kTypeName[type], kFormName[form]); }

static uint64_t call_get(StringReader& r, unsigned type, bool big, bool advance) {
  if (kWidth[type] == 1) big = false;
  switch ((static_cast<unsigned>(big) << 4) | type) {
#define X(t, b, name, T) \
  case ((b) << 4) | (t): return to_ext<T>(r.get_##name(advance));
    C01_READERS(X)
#undef X
  }
  throw std::logic_error("bad reader kind");
}
static uint64_t call_pget(const StringReader& r, unsigned type, bool big, size_t off) {
  if (kWidth[type] == 1) big = false;
  switch ((static_cast<unsigned>(big) << 4) | type) {
#define X(t, b, name, T) \
  case ((b) << 4) | (t): return to_ext<T>(r.pget_##name(off));
    C01_READERS(X)
#undef X
  }
  throw std::logic_error("bad reader kind");
}
static std::string reader_name(unsigned type, bool big) {
  return cat(kTypeName[type], kWidth[type] == 1 ? "" : (big ? "b" : "l"));
}

// ---------------------------------------------------------------- independent encoder / decoder

// byte order in which a writer form must lay the value out
static bool form_is_big(unsigned form) {
  switch (form) {
    case F_NATIVE: return !kHostLittle;
    case F_REV: return kHostLittle;
    case F_BIG: return true;
    default: return false;
  }
}

static void ref_encode(uint8_t* out, unsigned w, bool big, uint64_t raw) {
  for (unsigned k = 0; k < w; k++) {
    uint8_t byte = static_cast<uint8_t>((raw / (k == 0 ? 1ULL : (1ULL << (8 * k)))) % 256); // k-th least significant byte
    out[big ? (w - 1 - k) : k] = byte;
  }
}

// decodes w bytes, returns the canonical extended form (see to_ext)
static uint64_t ref_decode(const uint8_t* p, unsigned w, bool big, bool is_signed) {
  unsigned __int128 v = 0;
  for (unsigned k = 0; k < w; k++) {
    uint8_t byte = big ? p[k] : p[w - 1 - k];
    v = v * 256 + byte;
  }
  if (is_signed) {
    unsigned __int128 half = static_cast<unsigned __int128>(1) << (8 * w - 1);
    if (v >= half) {
      // negative: value = v - 2^(8w); canonical form is its 64-bit two's complement
      __int128 sv = static_cast<__int128>(v) - (static_cast<__int128>(1) << (8 * w));
      return static_cast<uint64_t>(static_cast<int64_t>(sv));
    }
  }
  return static_cast<uint64_t>(v);
}

// canonical extended form of the value the caller handed to put_*
static uint64_t written_ext(unsigned type, uint64_t bits) {
  unsigned w = kWidth[type];
  uint64_t raw = bits & width_mask(w);
  if (kSigned[type] && w < 8 && (raw >> (8 * w - 1))) raw |= ~width_mask(w);
  return raw;
}

static uint64_t splitmix(uint64_t& s) {
  s += 0x9E3779B97F4A7C15ULL;
  uint64_t z = s;
  z = (z ^ (z >> 30)) * 0xBF58476D1CE4E5B9ULL;
  z = (z ^ (z >> 27)) * 0x94D049BB133111EBULL;
  return z ^ (z >> 31);
}

struct WideAcc {
  const char* name;
  unsigned w;
  bool big, sgn;
};
static const WideAcc kWide[8] = {{"u24b", 3, true, false}, {"u24l", 3, false, false}, {"s24b", 3, true, true}, {"s24l", 3, false, true},
    {"u48b", 6, true, false}, {"u48l", 6, false, false}, {"s48b", 6, true, true}, {"s48l", 6, false, true}};

static uint64_t wide_get(StringReader& r, int k, bool advance) {
  switch (k) {
    case 0: return to_ext(r.get_u24b(advance));
    case 1: return to_ext(r.get_u24l(advance));
    case 2: return to_ext(r.get_s24b(advance));
    case 3: return to_ext(r.get_s24l(advance));
    case 4: return to_ext(r.get_u48b(advance));
    case 5: return to_ext(r.get_u48l(advance));
    case 6: return to_ext(r.get_s48b(advance));
    default: return to_ext(r.get_s48l(advance));
  }
}
static uint64_t wide_pget(const StringReader& r, int k, size_t off) {
  switch (k) {
    case 0: return to_ext(r.pget_u24b(off));
    case 1: return to_ext(r.pget_u24l(off));
    case 2: return to_ext(r.pget_s24b(off));
    case 3: return to_ext(r.pget_s24l(off));
    case 4: return to_ext(r.pget_u48b(off));
    case 5: return to_ext(r.pget_u48l(off));
    case 6: return to_ext(r.pget_s48b(off));
    default: return to_ext(r.pget_s48l(off));
  }
}

