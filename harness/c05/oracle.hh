// oracle.hh - the C05 oracle for ONE arbitrary text, shared by the fuzz target (fuzz/c05_json.cc), the harness
// (harness/c05_json_parse.cc: grammar documents, prefix/single-edit enumeration) and the serve shim.
//
// check_text(text) runs the three entry points (StringReader&, ptr+size, std::string) in default and strict mode and checks
//   exception-type:<type>            anything but JSON::parse_error / std::out_of_range escaped (type_error, length_error...)
//   reader-position                  reader entry point left where() > size()
//   entry-points-disagree            ptr+size and std::string entry points differ in outcome or value
//   reader-vs-string                 the string entry point returned a value the reader entry point does not return
//   trailing-whitespace-rejected     reader entry point stops before pure whitespace, string entry point throws
//   trailing-garbage-accepted        reader entry point stops before a non-whitespace, non-comment byte, string entry point returns
//   trailing-garbage-accepted:after-comment   default mode: whitespace and complete // comment lines follow the value, then a byte
//                                    that is neither whitespace nor the start of a // comment, and the string entry point returns
//   trailing-comment-rejected        default mode: only whitespace and // comments follow the value, string entry point throws
//   and, when the independent RFC 8259 reader (refjson.hh) says the text is a standard document inside the stated domain,
//   rejects-standard-document        phosg throws
//   value:<diff class>               phosg's value differs (ints exact, other numbers 1e-9 relative, strings byte-equal...)
//   reader-extent                    the reader entry point does not stop exactly after the value's last character
// The signature is completed with the mode and with the class of the smallest sub-document that fails the same way.
#pragma once
#include <memory>
#include <string>

#include <phosg/JSON.hh>
#include <phosg/Strings.hh>

#include "../c04/tree.hh"
#include "refjson.hh"

namespace c5 {

enum Entry { READER = 0,
  PTR = 1,
  STRING = 2 };

struct Outcome {
  enum Kind { VALUE,
    PARSE_ERROR,
    OUT_OF_RANGE,
    OTHER } kind = OTHER;
  std::string exc_type, what;
  jt::Node value;
  size_t where = 0, size = 0; // reader entry point: position after the call (also when it threw)
  bool threw() const { return kind != VALUE; }
};

inline std::string type_label(const std::exception& e) {
  if (dynamic_cast<const phosg::JSON::type_error*>(&e)) return "JSON::type_error";
  if (dynamic_cast<const std::length_error*>(&e)) return "std::length_error";
  if (dynamic_cast<const std::invalid_argument*>(&e)) return "std::invalid_argument";
  if (dynamic_cast<const std::bad_alloc*>(&e)) return "std::bad_alloc";
  if (dynamic_cast<const std::logic_error*>(&e)) return "std::logic_error";
  if (dynamic_cast<const std::runtime_error*>(&e)) return "std::runtime_error";
  return typeid(e).name();
}

// Runs one entry point. ptr+size and reader get an exactly sized heap copy so that ASan sees the first byte past the end.
inline Outcome run_parse(const std::string& text, bool strict, Entry entry) {
  Outcome o;
  o.size = text.size();
  std::unique_ptr<char[]> exact(new char[text.size()]);
  if (!text.empty()) memcpy(exact.get(), text.data(), text.size());
  phosg::StringReader rd(exact.get(), text.size());
  try {
    phosg::JSON j;
    switch (entry) {
      case READER: j = phosg::JSON::parse(rd, strict); break;
      case PTR: j = phosg::JSON::parse(exact.get(), text.size(), strict); break;
      case STRING: j = phosg::JSON::parse(text, strict); break;
    }
    o.kind = Outcome::VALUE;
    o.value = jt::from_json(j);
  } catch (const phosg::JSON::parse_error& e) {
    o.kind = Outcome::PARSE_ERROR;
    o.what = e.what();
  } catch (const std::out_of_range& e) {
    o.kind = Outcome::OUT_OF_RANGE;
    o.what = e.what();
  } catch (const std::exception& e) {
    o.kind = Outcome::OTHER;
    o.exc_type = type_label(e);
    o.what = e.what();
  }
  o.where = rd.where();
  return o;
}

struct Finding {
  std::string sig, msg;
  bool none() const { return sig.empty(); }
};

struct Tally {
  uint64_t parses = 0, texts = 0, standard_in_domain = 0, standard_out_of_domain = 0, phosg_accepts_nonstandard_strict = 0,
           phosg_accepts_nonstandard_default = 0, rejected_both = 0, out_of_scope = 0;
};

inline std::string clip(const std::string& t, size_t n = 120) { return jt::show_bytes(t.size() > n ? t.substr(0, n) : t) + (t.size() > n ? "..." : ""); }

inline bool is_ws(char c) { return c == ' ' || c == '\t' || c == '\n' || c == '\r'; }

// Offset of the first byte from `k` on that is neither whitespace nor inside a // comment; a comment runs from "//" to the next
// line break (\n or \r - both end a comment inside a document too, see the ext subcheck) or to the end of the text.
// A '/' that is not followed by a second '/' is not a comment.
inline size_t skip_trailing_ws_and_comments(const std::string& t, size_t k) {
  for (;;) {
    while (k < t.size() && is_ws(t[k])) k++;
    if (k + 1 < t.size() && t[k] == '/' && t[k + 1] == '/') {
      k += 2;
      while (k < t.size() && t[k] != '\n' && t[k] != '\r') k++;
    } else {
      return k;
    }
  }
}

inline std::string subdoc_class(const std::string& t) {
  if (t.empty()) return "empty";
  char c = t[0];
  if (c == '[' || c == '{') {
    bool empty = true;
    for (size_t k = 1; k + 1 < t.size(); k++)
      if (!is_ws(t[k])) empty = false;
    return std::string(c == '[' ? "list" : "dict") + (empty ? ":empty" : ":non-empty");
  }
  if (c == '"') return "string";
  if (c == '-' || (c >= '0' && c <= '9')) {
    bool frac = t.find('.') != std::string::npos, ex = t.find_first_of("eE") != std::string::npos;
    bool neg_exp = t.find("e-") != std::string::npos || t.find("E-") != std::string::npos;
    size_t int_digits = 0;
    for (size_t k = (c == '-'); k < t.size() && t[k] >= '0' && t[k] <= '9'; k++) int_digits++;
    std::string r = "number";
    r += frac ? ":frac" : ":nofrac";
    r += ex ? (neg_exp ? ":negexp" : ":posexp") : ":noexp";
    if (int_digits > 18) r += ":long-int-part";
    return r;
  }
  return "literal";
}

// the differential clauses for one mode; returns the bare clause ("" = fine) and fills msg
inline std::string differential(const std::string& text, const rj::Result& ref, bool strict, const Outcome& o_str, const Outcome& o_rd, std::string& msg) {
  const char* mode = strict ? "strict" : "default";
  if (o_str.threw()) {
    msg = std::string("standard document rejected in ") + mode + " mode (" + o_str.what + "): " + clip(text);
    return "rejects-standard-document";
  }
  jt::Diff d = jt::diff(o_str.value, ref.value, jt::NUMERIC_REL_1E9);
  if (!d.none()) {
    msg = std::string(mode) + " mode value differs from the reference at " + d.text + " for " + clip(text);
    return "value:" + d.cls;
  }
  if (o_rd.threw()) {
    msg = std::string("reader entry point throws on a standard document in ") + mode + " mode (" + o_rd.what + "): " + clip(text);
    return "rejects-standard-document";
  }
  if (o_rd.where != ref.value_end) {
    msg = std::string("reader entry point (") + mode + ") stopped at offset " + std::to_string(o_rd.where) + ", the value ends at " + std::to_string(ref.value_end) + ": " + clip(text);
    return "reader-extent";
  }
  return "";
}

inline Finding check_text(const std::string& text, Tally* tally = nullptr, bool localise = true) {
  rj::Result ref = rj::parse_document(text, 600);
  bool in_domain = ref.in_domain();
  if (tally) {
    tally->texts++;
    if (in_domain) tally->standard_in_domain++;
    else if (ref.ok) tally->standard_out_of_domain++;
  }
  bool any_accept = false;
  for (int strict = 0; strict < 2; strict++) {
    const char* mode = strict ? "strict" : "default";
    Outcome o_rd = run_parse(text, strict, READER);
    Outcome o_ptr = run_parse(text, strict, PTR);
    Outcome o_str = run_parse(text, strict, STRING);
    if (tally) tally->parses += 3;
    for (const Outcome* o : {&o_rd, &o_ptr, &o_str}) {
      if (o->kind == Outcome::OTHER)
        return {"exception-type:" + o->exc_type, std::string(mode) + " mode: " + o->exc_type + " (" + o->what + ") escaped from JSON::parse on " + clip(text)};
    }
    if (o_rd.where > o_rd.size) return {"reader-position", std::string(mode) + " mode: reader at " + std::to_string(o_rd.where) + " of " + std::to_string(o_rd.size) + " after parsing " + clip(text)};
    if (o_ptr.threw() != o_str.threw() || (!o_ptr.threw() && !jt::diff(o_ptr.value, o_str.value, jt::NUMERIC_REL_1E9).none()))
      return {"entry-points-disagree", std::string(mode) + " mode: parse(ptr,size) and parse(string) disagree on " + clip(text)};
    if (!o_str.threw()) {
      any_accept = true;
      if (tally && !ref.ok) (strict ? tally->phosg_accepts_nonstandard_strict : tally->phosg_accepts_nonstandard_default)++;
      if (o_rd.threw() || !jt::diff(o_rd.value, o_str.value, jt::NUMERIC_REL_1E9).none())
        return {"reader-vs-string", std::string(mode) + " mode: parse(string) returned a value, parse(reader) " + (o_rd.threw() ? "threw " + o_rd.what : std::string("returned another value")) + " on " + clip(text)};
    }
    if (!o_rd.threw()) {
      size_t k = o_rd.where;
      while (k < text.size() && is_ws(text[k])) k++;
      if (k == text.size()) {
        if (o_str.threw()) return {"trailing-whitespace-rejected", std::string(mode) + " mode: only whitespace follows the value, parse(string) throws " + o_str.what + " on " + clip(text)};
      } else if (!o_str.threw() && (strict || text[k] != '/')) {
        return {"trailing-garbage-accepted", std::string(mode) + " mode: reader stops at offset " + std::to_string(o_rd.where) + " but parse(string) accepts the trailing data in " + clip(text)};
      } else if (!strict) {
        // default mode, the trailing data starts with '/': a // comment (documented extension) runs to the end of ITS line only.
        // What follows the value is whitespace and // comments (the last one may lack its line break), or it is trailing data.
        size_t g = skip_trailing_ws_and_comments(text, k);
        if (g == text.size()) {
          if (o_str.threw()) return {"trailing-comment-rejected", std::string("default mode: only whitespace and // comments follow the value, parse(string) throws ") + o_str.what + " on " + clip(text)};
        } else if (!o_str.threw()) {
          return {"trailing-garbage-accepted:after-comment", "default mode: reader stops at offset " + std::to_string(o_rd.where) + ", the // comment(s) after it end at offset " + std::to_string(g) + " but parse(string) accepts the data after them in " + clip(text)};
        }
      }
    }
    if (in_domain) {
      std::string msg;
      std::string clause = differential(text, ref, strict, o_str, o_rd, msg);
      if (!clause.empty()) {
        // root-cause class: the shortest value inside the document that fails the same clause on its own
        std::string cls = subdoc_class(text.substr(ref.value_begin, ref.value_end - ref.value_begin));
        if (localise) {
          size_t best = ref.value_end - ref.value_begin + 1;
          for (const auto& ex : ref.extents) {
            size_t len = ex.second - ex.first;
            if (len >= best) continue;
            std::string sub = text.substr(ex.first, len);
            rj::Result sr = rj::parse_document(sub, 600);
            if (!sr.in_domain()) continue;
            Outcome s_rd = run_parse(sub, strict, READER), s_str = run_parse(sub, strict, STRING);
            std::string m2;
            if (differential(sub, sr, strict, s_str, s_rd, m2) == clause) {
              best = len;
              cls = subdoc_class(sub);
            }
          }
        }
        return {clause + ":" + mode + ":" + cls, msg};
      }
    }
  }
  if (tally && !any_accept) tally->rejected_both++;
  return {};
}

// inputs outside the stated domain that are merely slow: an exponent whose value exceeds 999 (more than three digits after
// its leading zeros - the spelling e0000000002 is the exponent 2 and stays inside) makes the scanner loop up to 2^31
// times, more than 500 brackets exceeds the stated nesting bound. Skipped (and counted) by the fuzz target and by the edit
// enumeration.
inline bool out_of_scope(const uint8_t* d, size_t n, const char** why) {
  size_t opens = 0;
  for (size_t k = 0; k < n; k++) {
    if (d[k] == '[' || d[k] == '{') opens++;
    if ((d[k] == 'e' || d[k] == 'E') && k + 1 < n) {
      size_t j = k + 1;
      if (d[j] == '+' || d[j] == '-') j++;
      while (j < n && d[j] == '0') j++; // leading zeros do not change the value
      size_t digits = 0;
      while (j < n && d[j] >= '0' && d[j] <= '9') {
        j++;
        digits++;
      }
      if (digits > 3) {
        *why = "exponent above 999 (more than 3 digits after its leading zeros)";
        return true;
      }
    }
  }
  if (opens > 500) {
    *why = "more than 500 opening brackets";
    return true;
  }
  return false;
}

// ---------------------------------------------------------------- prefixes and single-byte edits

inline const std::string& edit_alphabet() {
  static const std::string a = std::string("{}[],:\"\\/019-+.eExntfu a\n") + std::string(1, '\0') + "\x80\xff";
  return a;
}

// every proper prefix, every single-byte deletion, replacement and insertion over the structural alphabet.
// f(text) -> false stops the enumeration.
template <typename F>
void for_each_edit(const std::string& doc, F&& f) {
  for (size_t n = 0; n < doc.size(); n++)
    if (!f(doc.substr(0, n))) return;
  for (size_t k = 0; k < doc.size(); k++) {
    std::string t = doc;
    t.erase(k, 1);
    if (!f(t)) return;
  }
  const std::string& a = edit_alphabet();
  for (size_t k = 0; k < doc.size(); k++)
    for (char c : a) {
      if (doc[k] == c) continue;
      std::string t = doc;
      t[k] = c;
      if (!f(t)) return;
    }
  for (size_t k = 0; k <= doc.size(); k++)
    for (char c : a) {
      std::string t = doc;
      t.insert(k, 1, c);
      if (!f(t)) return;
    }
}

inline Finding check_edits(const std::string& doc, Tally* tally = nullptr) {
  Finding first;
  for_each_edit(doc, [&](const std::string& t) {
    const char* why = nullptr;
    if (out_of_scope(reinterpret_cast<const uint8_t*>(t.data()), t.size(), &why)) {
      if (tally) tally->out_of_scope++;
      return true;
    }
    Finding f = check_text(t, tally);
    if (!f.none()) {
      first = f;
      first.msg = "edited text " + clip(t, 200) + " :: " + f.msg;
      return false;
    }
    return true;
  });
  return first;
}

} // namespace c5
