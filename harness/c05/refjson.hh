// refjson.hh - an independent, strict RFC 8259 recogniser/evaluator written for the checks (no phosg code inside).
// It is the in-process reference for C05 (fuzz target, edit enumeration, grammar documents) and the in-process
// "independent JSON implementation" of C04; the Python drivers cross-check it against json.loads on every
// generated document (sig harness-refjson-vs-python), so a bug in it shows up as such and not as a phosg defect.
//
// Result.ok        the text is  ws value ws  per RFC 8259 (parse_document) / starts with  ws value  (parse_prefix)
// Result.value     jt::Node; strings are byte strings (\u00XX -> byte XX, raw bytes kept)
// domain flags     the document is standard JSON but outside what property C05 quantifies over
#pragma once
#include <errno.h>
#include <float.h>
#include <math.h>
#include <stdlib.h>

#include <set>
#include <string>

#include "../c04/tree.hh"

namespace rj {

struct Result {
  bool ok = false;
  std::string error;
  size_t error_pos = 0;
  jt::Node value;
  size_t value_begin = 0, value_end = 0; // extent of the top-level value (without surrounding whitespace)
  // --- domain flags (document is valid JSON, but not in the stated domain)
  bool dup_keys = false; // RFC: "names SHOULD be unique"; phosg keeps the first, Python the last
  bool u_escape_gt_ff = false; // \uXXXX above U+00FF (phosg documents that it rejects them)
  bool raw_high_byte = false; // raw byte >= 0x80 inside a string (UTF-8 text; byte/char models differ)
  bool int_out_of_range = false; // integer numeral outside int64
  bool float_out_of_range = false; // numeral with fraction/exponent whose value is not zero or within 1e-300..1e300
  bool exp_digits_gt3 = false; // exponent whose VALUE exceeds 999: more than 3 digits after its leading zeros (e0000000002 is 2)
  bool long_numeral = false; // more than 40 digits in one numeral
  bool too_deep = false; // nesting beyond the limit given to the parser
  // --- shape (for the non-trivial rule)
  size_t max_depth = 0;
  std::vector<std::pair<uint32_t, uint32_t>> extents; // [begin,end) of every value in the text (filled when ok)
  bool has_frac_or_exp = false, has_escape = false, has_container = false, has_string = false;

  bool in_domain() const {
    return ok && !dup_keys && !u_escape_gt_ff && !raw_high_byte && !int_out_of_range && !float_out_of_range &&
        !exp_digits_gt3 && !long_numeral && !too_deep;
  }
};

class Parser {
public:
  Parser(const std::string& t, size_t depth_limit) : t(t), depth_limit(depth_limit) {}

  Result document() {
    Result r;
    try {
      ws();
      r.value_begin = p;
      r.value = value(r, 1);
      r.value_end = p;
      ws();
      if (p != t.size()) fail("trailing data");
      r.ok = true;
    } catch (const Err& e) {
      r.ok = false;
      r.error = e.what;
      r.error_pos = p;
    }
    return r;
  }
  Result prefix() {
    Result r;
    try {
      ws();
      r.value_begin = p;
      r.value = value(r, 1);
      r.value_end = p;
      r.ok = true;
    } catch (const Err& e) {
      r.ok = false;
      r.error = e.what;
      r.error_pos = p;
    }
    return r;
  }

private:
  struct Err {
    const char* what;
  };
  const std::string& t;
  size_t depth_limit;
  size_t p = 0;

  [[noreturn]] void fail(const char* w) { throw Err{w}; }
  bool eof() const { return p >= t.size(); }
  unsigned char cur() const { return static_cast<unsigned char>(t[p]); }
  void ws() {
    while (!eof() && (t[p] == ' ' || t[p] == '\t' || t[p] == '\n' || t[p] == '\r')) p++;
  }
  bool lit(const char* s) {
    size_t n = strlen(s);
    if (t.size() - p >= n && memcmp(t.data() + p, s, n) == 0) {
      p += n;
      return true;
    }
    return false;
  }
  static int hexv(unsigned char c) {
    if (c >= '0' && c <= '9') return c - '0';
    if (c >= 'a' && c <= 'f') return c - 'a' + 10;
    if (c >= 'A' && c <= 'F') return c - 'A' + 10;
    return -1;
  }
  static bool dig(unsigned char c) { return c >= '0' && c <= '9'; }

  std::string string_body(Result& r) {
    // at the opening quote
    p++;
    std::string out;
    while (true) {
      if (eof()) fail("unterminated string");
      unsigned char c = cur();
      if (c == '"') {
        p++;
        return out;
      }
      if (c < 0x20) fail("raw control character in string");
      if (c == '\\') {
        r.has_escape = true;
        p++;
        if (eof()) fail("unterminated escape");
        unsigned char e = cur();
        p++;
        switch (e) {
          case '"': out += '"'; break;
          case '\\': out += '\\'; break;
          case '/': out += '/'; break;
          case 'b': out += '\b'; break;
          case 'f': out += '\f'; break;
          case 'n': out += '\n'; break;
          case 'r': out += '\r'; break;
          case 't': out += '\t'; break;
          case 'u': {
            unsigned v = 0;
            for (int k = 0; k < 4; k++) {
              if (eof()) fail("unterminated \\u escape");
              int h = hexv(cur());
              if (h < 0) fail("bad hex digit in \\u escape");
              v = v * 16 + h;
              p++;
            }
            if (v > 0xFF) {
              r.u_escape_gt_ff = true;
              out += '?';
            } else out += static_cast<char>(v);
            break;
          }
          default: fail("invalid escape");
        }
        continue;
      }
      if (c >= 0x80) r.raw_high_byte = true;
      out += static_cast<char>(c);
      p++;
    }
  }

  jt::Node number(Result& r) {
    size_t start = p;
    bool neg = false;
    if (cur() == '-') {
      neg = true;
      p++;
    }
    if (eof() || !dig(cur())) fail("digit expected");
    size_t digits = 0;
    unsigned __int128 mag = 0;
    bool mag_overflow = false;
    if (cur() == '0') {
      p++;
      digits++;
    } else {
      while (!eof() && dig(cur())) {
        if (mag > (((unsigned __int128)1) << 100)) mag_overflow = true;
        else mag = mag * 10 + (cur() - '0');
        p++;
        digits++;
      }
    }
    bool frac = false, ex = false;
    if (!eof() && cur() == '.') {
      frac = true;
      p++;
      if (eof() || !dig(cur())) fail("digit expected after '.'");
      while (!eof() && dig(cur())) {
        p++;
        digits++;
      }
    }
    if (!eof() && (cur() == 'e' || cur() == 'E')) {
      ex = true;
      p++;
      if (!eof() && (cur() == '+' || cur() == '-')) p++;
      if (eof() || !dig(cur())) fail("digit expected in exponent");
      // The domain rule is about the exponent's VALUE (a scanner may loop |exponent| times), not about how it is spelled:
      // exp = e [+-] 1*DIGIT admits any number of leading zeros, and 1e0000000002 is the number 100.
      size_t ed = 0;
      bool leading = true;
      while (!eof() && dig(cur())) {
        if (!(leading && cur() == '0')) {
          leading = false;
          ed++;
        }
        p++;
      }
      if (ed > 3) r.exp_digits_gt3 = true;
    }
    if (digits > 40) r.long_numeral = true;
    if (!frac && !ex) {
      unsigned __int128 lim = neg ? (((unsigned __int128)1) << 63) : ((((unsigned __int128)1) << 63) - 1);
      if (mag_overflow || mag > lim) {
        r.int_out_of_range = true;
        return jt::Node::real(strtod(t.substr(start, p - start).c_str(), nullptr));
      }
      uint64_t m = static_cast<uint64_t>(mag);
      return jt::Node::integer(neg ? static_cast<int64_t>(0 - m) : static_cast<int64_t>(m));
    }
    r.has_frac_or_exp = true;
    std::string txt = t.substr(start, p - start);
    double v = strtod(txt.c_str(), nullptr);
    // "within double range": finite and, unless zero, with 1e-300 <= |v| <= 1e300 (a margin of 8 decades to both ends, so
    // that a scanner which is a few ulps off near DBL_MAX/DBL_MIN is not reported)
    if (!(isfinite(v))) r.float_out_of_range = true;
    else if (v != 0.0 && (fabs(v) < 1e-300 || fabs(v) > 1e300)) r.float_out_of_range = true;
    else if (v == 0.0) {
      // "0.0", "0e5" are fine; a non-zero numeral that underflowed to zero is out of range
      for (size_t k = start; k < p; k++) {
        char ch = t[k];
        if (ch == 'e' || ch == 'E') break;
        if (ch >= '1' && ch <= '9') {
          r.float_out_of_range = true;
          break;
        }
      }
    }
    return jt::Node::real(v);
  }

  jt::Node value(Result& r, size_t depth) {
    size_t b = p;
    jt::Node n = value_inner(r, depth);
    r.extents.emplace_back(static_cast<uint32_t>(b), static_cast<uint32_t>(p));
    return n;
  }

  jt::Node value_inner(Result& r, size_t depth) {
    if (eof()) fail("value expected");
    unsigned char c = cur();
    if (c == '{' || c == '[') {
      r.has_container = true;
      if (depth > r.max_depth) r.max_depth = depth;
      if (depth > depth_limit) {
        r.too_deep = true;
        fail("nesting limit");
      }
    }
    if (c == '{') {
      p++;
      jt::Node n = jt::Node::dict();
      std::set<std::string> seen;
      ws();
      if (!eof() && cur() == '}') {
        p++;
        return n;
      }
      while (true) {
        ws();
        if (eof() || cur() != '"') fail("key expected");
        r.has_string = true;
        std::string key = string_body(r);
        ws();
        if (eof() || cur() != ':') fail("':' expected");
        p++;
        ws();
        jt::Node v = value(r, depth + 1);
        if (!seen.insert(key).second) r.dup_keys = true;
        else n.ents.emplace_back(std::move(key), std::move(v));
        ws();
        if (eof()) fail("unterminated object");
        if (cur() == ',') {
          p++;
          continue;
        }
        if (cur() == '}') {
          p++;
          return n;
        }
        fail("',' or '}' expected");
      }
    }
    if (c == '[') {
      p++;
      jt::Node n = jt::Node::list();
      ws();
      if (!eof() && cur() == ']') {
        p++;
        return n;
      }
      while (true) {
        ws();
        n.items.push_back(value(r, depth + 1));
        ws();
        if (eof()) fail("unterminated array");
        if (cur() == ',') {
          p++;
          continue;
        }
        if (cur() == ']') {
          p++;
          return n;
        }
        fail("',' or ']' expected");
      }
    }
    if (c == '"') {
      r.has_string = true;
      return jt::Node::str(string_body(r));
    }
    if (c == '-' || dig(c)) return number(r);
    if (lit("null")) return jt::Node::null();
    if (lit("true")) return jt::Node::boolean(true);
    if (lit("false")) return jt::Node::boolean(false);
    fail("unexpected character");
  }
};

inline Result parse_document(const std::string& text, size_t depth_limit = 600) { return Parser(text, depth_limit).document(); }
inline Result parse_prefix(const std::string& text, size_t depth_limit = 600) { return Parser(text, depth_limit).prefix(); }

} // namespace rj
