// verif.hh - common runtime for the phosg property harnesses.
//
// A harness TU defines a list of SubChecks and calls verif::main_(). Each
// SubCheck has
//   run(const Case&)   the oracle: executes ONE case against the real phosg code
//                      and throws verif::Fail{sig,msg} (use VCHECK / VFAIL) when
//                      the property is violated. Deterministic in the Case.
//   gen()              draws one Case from rapidcheck generators (imperative
//                      `*gen` style through the vg:: helpers below). All random
//                      choices go through rapidcheck, so shrinking works; the
//                      Case is serialised to text and is the replay file.
//   enumerate(Enum&)   optional exhaustive small-scope enumerator: builds Cases
//                      in plain loops and hands them to Enum::exec().
//
// Every case is journalled to <out>/shard<k>.current before it is executed, so
// a sanitizer abort (which bypasses shrinking and atexit) can be attributed by
// the driver. Results are written to <out>/shard<k>.json.
#pragma once

#include <fcntl.h>
#include <signal.h>
#include <sys/time.h>
#include <stdarg.h>
#include <stdint.h>
#include <stdio.h>
#include <stdlib.h>
#include <string.h>
#include <sys/mman.h>
#include <sys/stat.h>
#include <time.h>
#include <unistd.h>

#include <algorithm>
#include <functional>
#include <map>
#include <set>
#include <sstream>
#include <stdexcept>
#include <string>
#include <typeinfo>
#include <unordered_set>
#include <vector>

#include <rapidcheck.h>

namespace verif {

// ---------------------------------------------------------------- Case

struct Case {
  std::string check; // subcheck name
  std::vector<uint64_t> n; // numeric arguments (signed values / doubles stored as bit patterns)
  std::vector<std::string> s; // blobs

  Case() = default;
  explicit Case(std::string c) : check(std::move(c)) {}
  Case& N(uint64_t v) {
    n.push_back(v);
    return *this;
  }
  Case& I(int64_t v) {
    n.push_back(static_cast<uint64_t>(v));
    return *this;
  }
  Case& D(double v) {
    uint64_t b;
    memcpy(&b, &v, 8);
    n.push_back(b);
    return *this;
  }
  Case& S(std::string v) {
    s.push_back(std::move(v));
    return *this;
  }
  uint64_t u(size_t i) const {
    if (i >= n.size()) throw std::logic_error("Case: numeric argument index out of range");
    return n[i];
  }
  int64_t i(size_t k) const { return static_cast<int64_t>(u(k)); }
  double d(size_t k) const {
    uint64_t b = u(k);
    double v;
    memcpy(&v, &b, 8);
    return v;
  }
  const std::string& str(size_t k) const {
    if (k >= s.size()) throw std::logic_error("Case: blob argument index out of range");
    return s[k];
  }

  std::string encode() const {
    std::string r = "check=" + check + "\nn=";
    char buf[24];
    for (size_t k = 0; k < n.size(); k++) {
      if (k) r += ',';
      // small signed values are printed signed for readability
      int64_t sv = static_cast<int64_t>(n[k]);
      if (sv < 0 && sv > -1000000) {
        snprintf(buf, sizeof(buf), "%lld", static_cast<long long>(sv));
      } else {
        snprintf(buf, sizeof(buf), "%llu", static_cast<unsigned long long>(n[k]));
      }
      r += buf;
    }
    r += '\n';
    static const char* hx = "0123456789abcdef";
    for (const auto& b : s) {
      r += "s=";
      for (unsigned char c : b) {
        r += hx[c >> 4];
        r += hx[c & 15];
      }
      r += '\n';
    }
    return r;
  }

  static Case decode(const std::string& text) {
    Case c;
    size_t pos = 0;
    while (pos < text.size()) {
      size_t e = text.find('\n', pos);
      if (e == std::string::npos) e = text.size();
      std::string line = text.substr(pos, e - pos);
      pos = e + 1;
      if (line.rfind("check=", 0) == 0) {
        c.check = line.substr(6);
      } else if (line.rfind("n=", 0) == 0) {
        size_t p = 2;
        while (p < line.size()) {
          size_t q = line.find(',', p);
          if (q == std::string::npos) q = line.size();
          std::string tok = line.substr(p, q - p);
          if (!tok.empty()) {
            if (tok[0] == '-') {
              c.n.push_back(static_cast<uint64_t>(strtoll(tok.c_str(), nullptr, 10)));
            } else {
              c.n.push_back(strtoull(tok.c_str(), nullptr, 10));
            }
          }
          p = q + 1;
        }
      } else if (line.rfind("s=", 0) == 0) {
        std::string b;
        auto hv = [](char ch) -> int {
          if (ch >= '0' && ch <= '9') return ch - '0';
          if (ch >= 'a' && ch <= 'f') return ch - 'a' + 10;
          if (ch >= 'A' && ch <= 'F') return ch - 'A' + 10;
          return 0;
        };
        for (size_t p = 2; p + 1 < line.size(); p += 2) {
          b += static_cast<char>((hv(line[p]) << 4) | hv(line[p + 1]));
        }
        c.s.push_back(std::move(b));
      }
      // other lines (comments: "# ...", sig=..., msg=...) are ignored
    }
    return c;
  }
};

// ---------------------------------------------------------------- failures

struct Fail {
  std::string sig;
  std::string msg;
};

template <typename... A>
std::string cat(const A&... a) {
  std::ostringstream o;
  (void)std::initializer_list<int>{((o << a), 0)...};
  return o.str();
}

#define VFAIL(sig, ...) throw ::verif::Fail{(sig), ::verif::cat(__VA_ARGS__)}
#define VCHECK(cond, sig, ...)                           \
  do {                                                   \
    if (!(cond)) VFAIL((sig), #cond, " :: ", __VA_ARGS__); \
  } while (0)

inline uint64_t hash_bytes(const void* p, size_t len, uint64_t h = 0xcbf29ce484222325ULL) {
  const uint8_t* b = static_cast<const uint8_t*>(p);
  for (size_t i = 0; i < len; i++) {
    h ^= b[i];
    h *= 0x100000001b3ULL;
  }
  // final avalanche
  h ^= h >> 33;
  h *= 0xff51afd7ed558ccdULL;
  h ^= h >> 33;
  return h;
}
inline uint64_t hash_str(const std::string& s, uint64_t h = 0xcbf29ce484222325ULL) {
  return hash_bytes(s.data(), s.size(), h);
}
inline uint64_t mix(uint64_t a, uint64_t b) {
  uint64_t h = a * 0x9E3779B97F4A7C15ULL + b + 0x632BE59BD9B4E019ULL;
  h ^= h >> 29;
  h *= 0xbf58476d1ce4e5b9ULL;
  h ^= h >> 32;
  return h;
}

inline std::string hex(const std::string& b, size_t max = 64) {
  static const char* hx = "0123456789abcdef";
  std::string r;
  for (size_t i = 0; i < b.size() && i < max; i++) {
    r += hx[(unsigned char)b[i] >> 4];
    r += hx[(unsigned char)b[i] & 15];
  }
  if (b.size() > max) r += "...";
  return r;
}

inline std::string json_escape(const std::string& s) {
  std::string r;
  for (unsigned char c : s) {
    if (c == '"') r += "\\\"";
    else if (c == '\\') r += "\\\\";
    else if (c == '\n') r += "\\n";
    else if (c < 0x20 || c >= 0x7f) {
      char b[8];
      snprintf(b, sizeof(b), "\\u%04x", c);
      r += b;
    } else r += static_cast<char>(c);
  }
  return r;
}

// ---------------------------------------------------------------- context

struct FailureRecord {
  std::string sig, msg, case_text;
  uint64_t count = 0;
};

struct Ctx {
  std::string tier = "quick";
  uint64_t seed = 0;
  int shard = 0, nshards = 1;
  std::string out_dir = ".";
  std::set<std::string> known; // signatures of known findings (failures with these count as excluded)
  std::string only; // subcheck filter (prefix match), empty = all

  uint64_t evaluations = 0;
  std::unordered_set<uint64_t> nontrivial_set;
  bool distinct_capped = false;
  static constexpr size_t kDistinctCap = 3000000;
  std::map<std::string, uint64_t> classes;
  std::map<std::string, uint64_t> excluded;
  std::map<std::string, uint64_t> per_check_evals;
  std::map<std::string, std::string> exhaustive; // subcheck -> description of completed enumeration
  std::vector<std::string> samples;
  std::string last_case;
  std::map<std::string, FailureRecord> failures; // by signature
  std::vector<std::string> notes;

  int journal_fd = -1;
  time_t last_flush = 0;
  const std::string* cur_text = nullptr;
  uint64_t cur_hash = 0;
  bool cur_hash_valid = false;
  std::string cur_check;

  bool thorough() const { return tier == "thorough"; }

  void cls(const char* label, uint64_t k = 1) { classes[label] += k; }
  void cls(const std::string& label, uint64_t k = 1) { classes[label] += k; }
  void exclude(const std::string& why, uint64_t k = 1) { excluded[why] += k; }
  void count(uint64_t k) { evaluations += k; if (!cur_check.empty()) per_check_evals[cur_check] += k; }

  // mark a non-trivial case by explicit hash (distinctness is decided by the hash)
  void nontrivial(uint64_t h) {
    if (nontrivial_set.size() >= kDistinctCap) {
      distinct_capped = true;
      return;
    }
    nontrivial_set.insert(h);
  }
  // mark the case currently being executed as non-trivial (hash of its encoding)
  void nontrivial_case() {
    if (!cur_hash_valid && cur_text) {
      cur_hash = hash_str(*cur_text);
      cur_hash_valid = true;
    }
    nontrivial(cur_hash);
  }
  void sample(const std::string& text) {
    if (samples.size() < 12) samples.push_back(text.size() > 600 ? text.substr(0, 600) + "..." : text);
  }

  // The journal is a MAP_SHARED file mapping: one memcpy per case, and the contents
  // survive the death of the process (sanitizer abort, signal).
  char* journal_map = nullptr;
  size_t journal_cap = 0;
  volatile uint64_t journal_seq = 0; // bumped on every journal entry; the per-case CPU watchdog looks at it
  void journal(const std::string& text) {
    journal_seq = journal_seq + 1;
    if (journal_fd < 0) return;
    size_t need = text.size() + 16;
    if (need > journal_cap) {
      if (journal_map) munmap(journal_map, journal_cap);
      journal_cap = std::max<size_t>(1 << 20, need * 2);
      if (ftruncate(journal_fd, journal_cap) != 0) {
        journal_map = nullptr;
        journal_cap = 0;
        return;
      }
      void* m = mmap(nullptr, journal_cap, PROT_READ | PROT_WRITE, MAP_SHARED, journal_fd, 0);
      if (m == MAP_FAILED) {
        journal_map = nullptr;
        journal_cap = 0;
        return;
      }
      journal_map = static_cast<char*>(m);
    }
    // invalidate, write body, then publish the length
    memcpy(journal_map, "0000000000\n", 11);
    memcpy(journal_map + 11, text.data(), text.size());
    char head[16];
    snprintf(head, sizeof(head), "%010zu", text.size());
    memcpy(journal_map, head, 10);
  }
};

inline Ctx& ctx() {
  static Ctx c;
  return c;
}

// ---------------------------------------------------------------- subchecks

struct Enum;

struct SubCheck {
  std::string name;
  std::function<void(const Case&)> run;
  std::function<Case()> gen; // may be empty
  int quick_cases = 0; // random cases over all shards
  int thorough_cases = 0;
  int max_size = 100;
  std::function<void(Enum&)> enumerate; // may be empty
};

inline std::string exception_name(const std::exception& e) {
  return typeid(e).name();
}

// Execute one case through the oracle. Returns true when it passed (or failed
// with a known-finding signature, which is counted under `excluded`).
inline void write_results();

inline bool exec(const SubCheck& sc, const Case& c, bool light = false) {
  Ctx& x = ctx();
  // keep the result file fresh (every ~5 s) so that a shard stopped at its time budget still reports what it covered
  if ((x.evaluations & 0xFF) == 0 && x.journal_fd >= 0) {
    time_t now = time(nullptr);
    if (now - x.last_flush >= 5) {
      x.last_flush = now;
      write_results();
    }
  }
  std::string text;
  if (!light) {
    text = c.encode();
    x.journal(text);
    x.cur_text = &text;
  } else {
    x.cur_text = nullptr;
  }
  x.cur_hash_valid = false;
  x.cur_check = sc.name;
  x.evaluations++;
  x.per_check_evals[sc.name]++;
  std::string sig, msg;
  bool failed = false;
  try {
    sc.run(c);
  } catch (const Fail& f) {
    failed = true;
    sig = sc.name + "/" + f.sig;
    msg = f.msg;
  } catch (const std::exception& e) {
    failed = true;
    sig = sc.name + "/unexpected-exception";
    msg = cat(typeid(e).name(), ": ", e.what());
  }
  if (!light) {
    uint64_t k = x.per_check_evals[sc.name];
    if (k <= 2 || (k & (k - 1)) == 0) {
      if (x.samples.size() < 40) x.samples.push_back(text.size() > 600 ? text.substr(0, 600) + "..." : text);
    }
    x.last_case.swap(text);
    text.clear();
  }
  x.cur_text = nullptr;
  if (!failed) return true;
  if (x.known.count(sig)) {
    x.excluded["known-finding:" + sig]++;
    return true;
  }
  FailureRecord& fr = x.failures[sig];
  fr.sig = sig;
  fr.msg = msg;
  fr.case_text = light ? c.encode() : x.last_case;
  fr.count++;
  return false;
}

struct Enum {
  const SubCheck& sc;
  Ctx& x;
  uint64_t counter = 0;
  bool stop = false; // set after a failure; enumerators should bail out
  uint64_t fails = 0;
  explicit Enum(const SubCheck& s) : sc(s), x(ctx()) {}
  bool thorough() const { return x.thorough(); }
  // round-robin ownership of outer-loop index i
  bool mine(uint64_t i) const { return static_cast<int>(i % x.nshards) == x.shard; }
  bool exec(const Case& c) {
    bool ok = verif::exec(sc, c);
    if (!ok) {
      fails++;
      if (fails >= 20) stop = true;
    }
    return ok;
  }
  // For hot loops: journal a block once, then run many evaluations without
  // per-case journalling. On failure the precise Case is still recorded.
  bool exec_light(const Case& c) {
    bool ok = verif::exec(sc, c, true);
    if (!ok) {
      fails++;
      if (fails >= 20) stop = true;
    }
    return ok;
  }
  void journal_block(const Case& c) { x.journal(c.encode()); }
  void complete(const std::string& description) {
    x.exhaustive[sc.name] = description;
  }
};

// ---------------------------------------------------------------- generators (rapidcheck, imperative)

namespace vg {

constexpr int kNominal = 100;

inline uint64_t u64() { return *rc::gen::resize(kNominal, rc::gen::arbitrary<uint64_t>()); }
// uniform in [0, n), independent of rapidcheck's size parameter
inline uint64_t below(uint64_t n) {
  if (n <= 1) return 0;
  return *rc::gen::resize(kNominal, rc::gen::inRange<uint64_t>(0, n));
}
// uniform in [lo, hi] inclusive
inline int64_t range(int64_t lo, int64_t hi) {
  if (hi <= lo) return lo;
  uint64_t span = static_cast<uint64_t>(hi) - static_cast<uint64_t>(lo);
  if (span == UINT64_MAX) return static_cast<int64_t>(u64());
  return static_cast<int64_t>(static_cast<uint64_t>(lo) + below(span + 1));
}
// in [0, max], scaled by rapidcheck's current size (small early, large late; shrinks towards 0)
inline uint64_t scaled(uint64_t max) {
  if (max == 0) return 0;
  return *rc::gen::inRange<uint64_t>(0, max + 1);
}
inline bool coin() { return below(2) == 1; }
inline bool chance(unsigned num, unsigned den) { return below(den) < num; }
template <typename T>
inline T pick(const std::vector<T>& v) {
  return v[below(v.size())];
}
template <typename T>
inline T pick(std::initializer_list<T> v) {
  return *(v.begin() + below(v.size()));
}
// interesting 64-bit values: extremes, single bits, 2^k +- 1, byte patterns, uniform
inline uint64_t interesting64() {
  switch (below(8)) {
    case 0: return pick<uint64_t>({0, 1, 2, 0x7F, 0x80, 0xFF, 0x100, 0x7FFF, 0x8000, 0xFFFF, 0x10000, 0x7FFFFFFF, 0x80000000ULL, 0xFFFFFFFFULL, 0x100000000ULL, 0x7FFFFFFFFFFFFFFFULL, 0x8000000000000000ULL, 0xFFFFFFFFFFFFFFFFULL});
    case 1: return 1ULL << below(64);
    case 2: return (1ULL << below(64)) - 1;
    case 3: return (1ULL << below(64)) + 1;
    case 4: return ~(1ULL << below(64));
    case 5: return static_cast<uint64_t>(-static_cast<int64_t>(below(300)));
    case 6: return pick<uint64_t>({0x0102030405060708ULL, 0x8090A0B0C0D0E0F0ULL, 0x7F7F7F7F7F7F7F7FULL, 0x8080808080808080ULL, 0x00FF00FF00FF00FFULL, 0xFF00FF00FF00FF00ULL});
    default: return u64();
  }
}
// byte string over all 256 values
inline std::string bytes(size_t len) {
  std::string r(len, '\0');
  size_t i = 0;
  while (i < len) {
    uint64_t v = u64();
    for (int k = 0; k < 8 && i < len; k++, i++) r[i] = static_cast<char>(v >> (8 * k));
  }
  return r;
}
inline std::string bytes_from(const std::string& alphabet, size_t len) {
  std::string r(len, '\0');
  for (size_t i = 0; i < len; i++) r[i] = alphabet[below(alphabet.size())];
  return r;
}
// deterministic expansion of a library-drawn seed into bulk content (contents whose
// structure does not matter: pixels, payloads). Pure function of the seed.
inline std::string expand(uint64_t seed, size_t len) {
  std::string r(len, '\0');
  uint64_t s = seed * 0x9E3779B97F4A7C15ULL + 0x1234567;
  for (size_t i = 0; i < len; i++) {
    s ^= s << 13;
    s ^= s >> 7;
    s ^= s << 17;
    r[i] = static_cast<char>(s >> 24);
  }
  return r;
}

} // namespace vg

// ---------------------------------------------------------------- enumeration helpers

// all strings over `alphabet` with length in [0, maxlen]; f(const std::string&) -> bool (false = stop)
template <typename F>
void for_all_strings(const std::string& alphabet, size_t maxlen, F&& f) {
  std::vector<size_t> idx;
  std::string s;
  for (size_t len = 0; len <= maxlen; len++) {
    idx.assign(len, 0);
    s.assign(len, alphabet.empty() ? '\0' : alphabet[0]);
    while (true) {
      if (!f(s)) return;
      size_t p = len;
      while (p > 0) {
        p--;
        if (++idx[p] < alphabet.size()) {
          s[p] = alphabet[idx[p]];
          break;
        }
        idx[p] = 0;
        s[p] = alphabet[0];
        if (p == 0) {
          p = SIZE_MAX;
          break;
        }
      }
      if (len == 0 || p == SIZE_MAX) break;
    }
  }
}

// ---------------------------------------------------------------- result file

inline void write_results() {
  Ctx& x = ctx();
  std::string path = cat(x.out_dir, "/shard", x.shard, ".json");
  std::string tmp = path + ".tmp";
  FILE* f = fopen(tmp.c_str(), "w");
  if (!f) return;
  fprintf(f, "{\n \"shard\": %d, \"nshards\": %d, \"tier\": \"%s\", \"seed\": %llu,\n", x.shard, x.nshards, x.tier.c_str(), (unsigned long long)x.seed);
  fprintf(f, " \"evaluations\": %llu,\n \"distinct_nontrivial\": %zu,\n \"distinct_capped\": %s,\n", (unsigned long long)x.evaluations, x.nontrivial_set.size(), x.distinct_capped ? "true" : "false");
  auto dump_map = [&](const char* name, const std::map<std::string, uint64_t>& m) {
    fprintf(f, " \"%s\": {", name);
    bool first = true;
    for (const auto& it : m) {
      fprintf(f, "%s\"%s\": %llu", first ? "" : ", ", json_escape(it.first).c_str(), (unsigned long long)it.second);
      first = false;
    }
    fprintf(f, "},\n");
  };
  dump_map("classes", x.classes);
  dump_map("excluded", x.excluded);
  dump_map("per_check_evaluations", x.per_check_evals);
  fprintf(f, " \"exhaustive\": {");
  {
    bool first = true;
    for (const auto& it : x.exhaustive) {
      fprintf(f, "%s\"%s\": \"%s\"", first ? "" : ", ", json_escape(it.first).c_str(), json_escape(it.second).c_str());
      first = false;
    }
  }
  fprintf(f, "},\n \"samples\": [");
  {
    std::vector<std::string> ss = x.samples;
    if (!x.last_case.empty()) ss.push_back(x.last_case.size() > 600 ? x.last_case.substr(0, 600) + "..." : x.last_case);
    for (size_t i = 0; i < ss.size(); i++) fprintf(f, "%s\"%s\"", i ? ", " : "", json_escape(ss[i]).c_str());
  }
  fprintf(f, "],\n \"notes\": [");
  for (size_t i = 0; i < x.notes.size(); i++) fprintf(f, "%s\"%s\"", i ? ", " : "", json_escape(x.notes[i]).c_str());
  fprintf(f, "],\n \"failures\": [");
  {
    bool first = true;
    for (const auto& it : x.failures) {
      const FailureRecord& fr = it.second;
      fprintf(f, "%s\n  {\"sig\": \"%s\", \"msg\": \"%s\", \"count\": %llu, \"case\": \"%s\"}", first ? "" : ",", json_escape(fr.sig).c_str(), json_escape(fr.msg.substr(0, 2000)).c_str(), (unsigned long long)fr.count, json_escape(fr.case_text).c_str());
      first = false;
    }
  }
  fprintf(f, "]\n}\n");
  fclose(f);
  rename(tmp.c_str(), path.c_str());
  // distinct-hash file for cross-shard union
  std::string hp = cat(x.out_dir, "/shard", x.shard, ".hashes");
  FILE* h = fopen(hp.c_str(), "wb");
  if (h) {
    std::vector<uint64_t> v(x.nontrivial_set.begin(), x.nontrivial_set.end());
    if (!v.empty()) fwrite(v.data(), 8, v.size(), h);
    fclose(h);
  }
}

// ---------------------------------------------------------------- random search through rapidcheck

inline void random_search(const SubCheck& sc, int cases) {
  if (!sc.gen || cases <= 0) return;
  Ctx& x = ctx();
  rc::detail::TestParams params;
  params.seed = mix(mix(x.seed, static_cast<uint64_t>(x.shard) + 1), hash_str(sc.name));
  params.maxSuccess = cases;
  params.maxSize = sc.max_size;
  params.maxDiscardRatio = 10;
  rc::detail::TestMetadata md;
  md.id = sc.name;
  md.description = sc.name;
  // Shrinking re-executes the oracle for every candidate; bound it (300 failing executions) so that an expensive
  // oracle cannot spend the whole stage budget minimising one failure: afterwards every candidate "passes" and
  // rapidcheck stops at the smallest failing case found so far, which exec() has already recorded.
  uint64_t failing_execs = 0;
  auto result = rc::detail::checkTestable(
      [&sc, &failing_execs] {
        if (failing_execs >= 300) return;
        ctx().journal("gen=" + sc.name + "\n");
        Case c = sc.gen();
        c.check = sc.name;
        bool ok = exec(sc, c);
        if (!ok) {
          failing_execs++;
          RC_FAIL("oracle failure (see shard results)");
        }
      },
      md, params);
  if (!result.template is<rc::detail::SuccessResult>() && !result.template is<rc::detail::FailureResult>()) {
    std::ostringstream o;
    rc::detail::printResultMessage(result, o);
    x.notes.push_back(sc.name + ": rapidcheck: " + o.str());
    // generator errors / gave up are infrastructure problems
    FailureRecord& fr = x.failures["INFRA/" + sc.name + "/rapidcheck"];
    fr.sig = "INFRA/" + sc.name + "/rapidcheck";
    fr.msg = o.str();
    fr.count++;
  }
}

// ---------------------------------------------------------------- per-case CPU watchdog
//
// "Terminates" is part of several properties, and a case that never returns would otherwise only show up as a shard
// that ran out of budget. The watchdog counts CPU time (ITIMER_PROF), not wall-clock time, so machine load cannot
// trigger it: when one journal entry (one case, or one block of a hot loop) has consumed more than the limit
// (default 120 s of CPU, VERIF_CASE_CPU_LIMIT overrides) the process reports VERIF-ABORT: case-cpu-limit and exits;
// the driver attributes the journalled case like any other crash.
inline volatile uint64_t g_wd_last_seq = 0;
inline volatile int g_wd_ticks = 0;
inline int g_wd_limit_ticks = 24;
inline void watchdog_tick(int) {
  uint64_t seq = ctx().journal_seq;
  if (seq != g_wd_last_seq) {
    g_wd_last_seq = seq;
    g_wd_ticks = 0;
    return;
  }
  g_wd_ticks = g_wd_ticks + 1;
  if (g_wd_ticks >= g_wd_limit_ticks) {
    static const char msg[] = "\nVERIF-ABORT: case-cpu-limit (one case consumed more CPU time than the per-case limit: hang or runaway loop)\n";
    (void)!write(2, msg, sizeof(msg) - 1);
    _exit(78);
  }
}
inline void start_watchdog() {
  int limit_s = 120;
  if (const char* e = getenv("VERIF_CASE_CPU_LIMIT")) limit_s = atoi(e);
  if (limit_s <= 0) return;
  g_wd_limit_ticks = std::max(1, limit_s / 5);
  struct sigaction sa;
  memset(&sa, 0, sizeof(sa));
  sa.sa_handler = watchdog_tick;
  sa.sa_flags = SA_RESTART;
  sigaction(SIGPROF, &sa, nullptr);
  struct itimerval tv;
  tv.it_interval.tv_sec = 5;
  tv.it_interval.tv_usec = 0;
  tv.it_value = tv.it_interval;
  setitimer(ITIMER_PROF, &tv, nullptr);
}

// ---------------------------------------------------------------- main

inline int main_(int argc, char** argv, const std::vector<SubCheck>& checks) {
  Ctx& x = ctx();
  std::string replay;
  int cases_override = -1;
  for (int i = 1; i < argc; i++) {
    std::string a = argv[i];
    auto next = [&]() -> std::string {
      if (i + 1 >= argc) {
        fprintf(stderr, "missing value for %s\n", a.c_str());
        exit(2);
      }
      return argv[++i];
    };
    if (a == "--tier") x.tier = next();
    else if (a == "--seed") x.seed = strtoull(next().c_str(), nullptr, 10);
    else if (a == "--shard") x.shard = atoi(next().c_str());
    else if (a == "--nshards") x.nshards = atoi(next().c_str());
    else if (a == "--out") x.out_dir = next();
    else if (a == "--only") x.only = next();
    else if (a == "--cases") cases_override = atoi(next().c_str());
    else if (a == "--replay") replay = next();
    else if (a == "--known-file") {
      FILE* f = fopen(next().c_str(), "r");
      if (f) {
        char line[1024];
        while (fgets(line, sizeof(line), f)) {
          std::string l = line;
          while (!l.empty() && (l.back() == '\n' || l.back() == '\r')) l.pop_back();
          if (!l.empty()) x.known.insert(l);
        }
        fclose(f);
      }
    } else if (a == "--list") {
      for (const auto& sc : checks) printf("%s\n", sc.name.c_str());
      return 0;
    } else {
      fprintf(stderr, "unknown argument %s\n", a.c_str());
      return 2;
    }
  }

  start_watchdog();
  if (!replay.empty()) {
    FILE* f = fopen(replay.c_str(), "rb");
    if (!f) {
      fprintf(stderr, "cannot open %s\n", replay.c_str());
      return 2;
    }
    std::string text;
    char buf[65536];
    size_t r;
    while ((r = fread(buf, 1, sizeof(buf), f)) > 0) text.append(buf, r);
    fclose(f);
    Case c = Case::decode(text);
    for (const auto& sc : checks) {
      if (sc.name == c.check) {
        x.known.clear();
        bool ok = exec(sc, c);
        if (ok) {
          printf("REPLAY-PASS check=%s\n", sc.name.c_str());
          return 0;
        }
        for (const auto& it : x.failures) printf("REPLAY-FAIL sig=%s msg=%s\n", it.second.sig.c_str(), it.second.msg.c_str());
        return 1;
      }
    }
    fprintf(stderr, "replay: no subcheck named '%s'\n", c.check.c_str());
    return 2;
  }

  mkdir(x.out_dir.c_str(), 0777);
  std::string jp = cat(x.out_dir, "/shard", x.shard, ".current");
  x.journal_fd = open(jp.c_str(), O_CREAT | O_TRUNC | O_RDWR, 0666);

  for (const auto& sc : checks) {
    if (!x.only.empty() && sc.name.rfind(x.only, 0) != 0) continue;
    if (sc.enumerate) {
      Enum e(sc);
      x.cur_check = sc.name;
      sc.enumerate(e);
      write_results();
    }
    if (sc.gen) {
      int total = cases_override >= 0 ? cases_override : (x.thorough() ? sc.thorough_cases : sc.quick_cases);
      int mine = total / x.nshards + ((total % x.nshards) > x.shard ? 1 : 0);
      random_search(sc, mine);
      write_results();
    }
  }
  x.journal("");
  write_results();
  // exit status: 0 = ran to completion (failures are in the result file), the driver decides
  return 0;
}

} // namespace verif
