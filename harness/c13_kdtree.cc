// C13 - KDTree equals a brute-force multiset under any insert / erase / erase_advance history.
// The check lives in c13/kd_harness.hh. c13_kdtree_gated.cc is the same harness with KDTree::emplace (a member
// template that does not compile on an unrepaired tree) among the insertion operations; oracle/c13_gated.py
// probes, builds and runs it.
#include "c13/kd_harness.hh"

using namespace c13;

#ifdef C13_GATED
static const bool kGated = true;
#define C13_SUFFIX "_g"
#elif !defined(ALLOC_BALANCE_ASAN)
// throughput flavor (no sanitizers): only the deepest exhaustive level, whose 3.8e8 histories cost ~90 us each under
// ASan (every query and every deletion allocates a std::deque) and ~5 us without
static const bool kGated = false;
#define C13_SUFFIX "_o2"
#define C13_FAST 1
#else
static const bool kGated = false;
#define C13_SUFFIX ""
#endif

template <size_t D>
static void run_history(const Case& c) {
  if (c.u(1) != D) throw std::logic_error("C13: dimension does not match the subcheck");
  int64_t side = c.i(2);
  if (side < 1 || side > 40) throw std::logic_error("C13: grid side outside the domain");
  Stats st;
  KD<D>::replay(c.n.data() + 4, c.n.size() - 4, side, c.u(3), st);
  if (st.nontrivial) ctx().nontrivial_case();
  size_t len = c.n.size() - 4;
  ctx().cls(cat("kd", D, ":side=", side <= 4 ? cat(side) : side <= 6 ? std::string("5-6") : std::string("7-12")));
  ctx().cls(cat("kd", D, ":ops<=", len == 0 ? "0" : len <= 8 ? "8" : len <= 30 ? "30" : len <= 100 ? "100" : "300"));
}

static void run_kd2(const Case& c) {
  if (c.u(0) == 0) {
    run_history<2>(c);
  } else if (c.u(0) == 1) {
    size_t k = c.u(1);
    if (c.n.size() != 4 + k) throw std::logic_error("C13: malformed block case");
    std::vector<uint64_t> cells(c.n.begin() + 4, c.n.end());
    for (uint64_t x : cells)
      if (x > 8) throw std::logic_error("C13: cell outside the 3x3 grid");
    Stats st;
    uint64_t cnt = run_exhaustive_block(cells, c.u(2) != 0, static_cast<Battery>(c.u(3)), st, nullptr);
    ctx().count(cnt - 1);
    if (st.nontrivial) ctx().nontrivial_case();
  } else {
    throw std::logic_error("C13: unknown case mode");
  }
}
static void run_kd3(const Case& c) {
  if (c.u(0) != 0) throw std::logic_error("C13: kd3 has histories only");
  run_history<3>(c);
}

template <size_t D>
static Case gen_history() {
  Case c(D == 2 ? "kd2" C13_SUFFIX : "kd3" C13_SUFFIX);
  int64_t side = (D == 2) ? vg::pick<int64_t>({2, 3, 3, 4, 4, 5, 6, 8, 12}) : vg::pick<int64_t>({2, 2, 3, 3, 4});
  uint64_t maxlen = ctx().thorough() ? 300 : 60;
  if (D == 2 && side <= 4 && vg::chance(2, 3)) maxlen = 24; // the full battery runs after every step on small grids
  if (vg::chance(1, 3)) maxlen = std::min<uint64_t>(maxlen, 12);
  uint64_t len = vg::scaled(maxlen);
  c.N(0).N(D).I(side).N(vg::below(1000000));
  auto coord = [&]() { return static_cast<int64_t>(vg::below(side)); };
  bool drain_at_end = vg::chance(1, 4);
  for (uint64_t i = 0; i < len; i++) {
    unsigned r = vg::below(100);
    uint64_t value = vg::below(3);
    if (r < 42) {
      unsigned code = (kGated && vg::coin()) ? EMPLACE : INSERT;
      c.N(pack_pt(code, coord(), coord(), D == 3 ? coord() : -1, value));
    } else if (r < 54) {
      c.N(pack_raw(INSERT_DUP, value + 10 * vg::below(1000)));
    } else if (r < 80) {
      c.N(pack_raw(ERASE_LIVE, vg::below(1000)));
    } else if (r < 90) {
      // explicit erase: mostly of something that is not there (wrong value or empty cell), also just outside the grid
      int64_t x = static_cast<int64_t>(vg::below(side + 2)) - 1, y = static_cast<int64_t>(vg::below(side + 2)) - 1;
      int64_t z = D == 3 ? static_cast<int64_t>(vg::below(side + 2)) - 1 : -1;
      c.N(pack_pt(ERASE, x, y, z, value));
    } else {
      c.N(pack_raw(SWEEP, vg::pick<uint64_t>({1, 2, 4, 4, 6, 8}) + 10 * vg::below(100000)));
    }
  }
  if (drain_at_end && len > 0) c.N(pack_raw(SWEEP, 8 + 10 * vg::below(1000)));
  return c;
}

// every insertion sequence of k cells of the 3x3 grid (9^k), each with all k! erase orders
static void enum_level(Enum& e, unsigned k, bool equal_values, Battery level, uint64_t& idx) {
  uint64_t total = 1;
  for (unsigned i = 0; i < k; i++) total *= 9;
  for (uint64_t code = 0; code < total && !e.stop; code++, idx++) {
    if (!e.mine(idx)) continue;
    std::vector<uint64_t> cells(k);
    uint64_t t = code;
    for (unsigned i = 0; i < k; i++) {
      cells[i] = t % 9;
      t /= 9;
    }
    Case blk("kd2" C13_SUFFIX);
    blk.N(1).N(k).N(equal_values ? 1 : 0).N(level);
    for (uint64_t x : cells) blk.N(x);
    if (!e.exec(blk)) {
      // record the precise history too (same signature, smaller replay file)
      std::vector<unsigned> order;
      Stats st;
      try {
        run_exhaustive_block(cells, equal_values, level, st, &order);
      } catch (const Fail&) {
      }
      Case single("kd2" C13_SUFFIX);
      single.N(0).N(2).N(3).N(0);
      for (uint64_t w : block_history(cells, equal_values, order)) single.N(w);
      e.exec(single);
    }
  }
}

static void enum_kd2(Enum& e) {
  uint64_t idx = 0;
  bool th = e.thorough();
#ifndef C13_FAST
  unsigned full_k = th ? 4 : 3, medium_k = th ? 5 : 4;
  for (unsigned k = 1; k <= medium_k; k++) enum_level(e, k, false, k <= full_k ? FULL : MEDIUM, idx);
  for (unsigned k = 2; k <= medium_k; k++) enum_level(e, k, true, MEDIUM, idx);
  e.complete(cat("every insertion sequence of 1..", medium_k, " cells of the 3x3 grid (repeats allowed) followed by every erase order, with distinct and with equal values, the tree destroyed full and empty; ",
      "after the insertions: the full query battery (all 25 points of the grid and its ring, all 100 boxes); after every erase: the full battery for k<=", full_k,
      ", lookups + single-cell boxes + slabs + whole grid for k<=", medium_k));
#else
  // k=5 with the medium battery, and (thorough) k=6 with lookups only
  enum_level(e, 5, false, MEDIUM, idx);
  if (th) enum_level(e, 6, false, LOOKUPS, idx);
  e.complete(cat("every insertion sequence of 5", th ? " and of 6" : "", " cells of the 3x3 grid (repeats allowed, distinct values) followed by every erase order: full battery after the insertions; ",
      "after every erase lookups + single-cell boxes + slabs + whole grid (k=5)", th ? ", size + iteration + lookup of every live entry + absence of every other cell (k=6)" : "", " - build without sanitizers"));
#endif
}

int main(int argc, char** argv) {
  std::vector<SubCheck> checks;
#ifdef C13_FAST
  checks.push_back({"kd2" C13_SUFFIX, run_kd2, nullptr, 0, 0, 100, enum_kd2});
#else
  checks.push_back({"kd2" C13_SUFFIX, run_kd2, gen_history<2>, kGated ? 6000 : 15000, kGated ? 60000 : 300000, 100, kGated ? std::function<void(Enum&)>() : enum_kd2});
  checks.push_back({"kd3" C13_SUFFIX, run_kd3, gen_history<3>, kGated ? 4000 : 8000, kGated ? 40000 : 150000, 100, nullptr});
#endif
  return main_(argc, argv, checks);
}
