// C13 - KDTree equals a brute-force multiset under any insert / erase / erase_advance history.
// The check lives in c13/kd_harness.hh. c13_kdtree_gated.cc is the same harness with KDTree::emplace (a member
// template that does not compile on an unrepaired tree) among the insertion operations; oracle/c13_gated.py
// probes, builds and runs it.
#include "c13/kd_harness.hh"

using namespace c13;

#ifdef C13_GATED
static const bool kGated = true;
#define C13_SUFFIX "_g"
#elif !defined(ALLOC_BALANCE_ASAN)
// throughput flavor (no sanitizers): the deepest exhaustive level, whose 3.8e8 histories cost ~90 us each under
// ASan (every query and every deletion allocates a std::deque) and ~5 us without, and the tallest chains (kdchain_o2)
static const bool kGated = false;
#define C13_SUFFIX "_o2"
#define C13_FAST 1
#else
static const bool kGated = false;
#define C13_SUFFIX ""
#endif

template <size_t D>
static void run_history(const Case& c) {
  if (c.u(1) != D) throw std::logic_error("C13: dimension does not match the subcheck");
  int64_t side = c.i(2);
  if (side < 1 || side > 40) throw std::logic_error("C13: grid side outside the domain");
  Stats st;
  KD<D>::replay(c.n.data() + 4, c.n.size() - 4, side, c.u(3), st);
  if (st.nontrivial) ctx().nontrivial_case();
  size_t len = c.n.size() - 4;
  ctx().cls(cat("kd", D, ":side=", side <= 4 ? cat(side) : side <= 6 ? std::string("5-6") : std::string("7-12")));
  ctx().cls(cat("kd", D, ":ops<=", len == 0 ? "0" : len <= 8 ? "8" : len <= 30 ? "30" : len <= 100 ? "100" : "300"));
}

static void run_kd2(const Case& c) {
  if (c.u(0) == 0) {
    run_history<2>(c);
  } else if (c.u(0) == 1) {
    size_t k = c.u(1);
    if (c.n.size() != 4 + k) throw std::logic_error("C13: malformed block case");
    std::vector<uint64_t> cells(c.n.begin() + 4, c.n.end());
    for (uint64_t x : cells)
      if (x > 8) throw std::logic_error("C13: cell outside the 3x3 grid");
    Stats st;
    uint64_t cnt = run_exhaustive_block(cells, c.u(2) != 0, static_cast<Battery>(c.u(3)), st, nullptr);
    ctx().count(cnt - 1);
    if (st.nontrivial) ctx().nontrivial_case();
  } else {
    throw std::logic_error("C13: unknown case mode");
  }
}
static void run_kd3(const Case& c) {
  if (c.u(0) != 0) throw std::logic_error("C13: kd3 has histories only");
  run_history<3>(c);
}

// ---------------------------------------------------------------- mode 2 / 3: query-interleaved histories, other coordinate types

template <size_t D>
static void run_query_history(const Case& c) {
  if (c.u(1) != D) throw std::logic_error("C13: dimension does not match the subcheck");
  int64_t side = c.i(2);
  if (side < 1 || side > 97) throw std::logic_error("C13: coordinate range outside the domain");
  uint64_t ptype = c.u(4);
  coord_map().a = c.u(5);
  coord_map().b = c.i(6);
  if (coord_map().b < -1000 || coord_map().b > 1000) throw std::logic_error("C13: coordinate shift outside the domain");
  Policy q;
  q.first = c.u(7) & 3;
  q.rest = (c.u(7) >> 2) & 3;
  Stats st;
  const uint64_t* ops = c.n.data() + 8;
  size_t len = c.n.size() - 8;
  try {
    if (ptype == 0) KD<D>::replay(ops, len, side, c.u(3), st, &q);
    else if (ptype == 1) KD<D, PointOfDouble<D>>::replay(ops, len, side, c.u(3), st, &q);
    else if (ptype == 2 && D == 2) KD<2, PointOfU64>::replay(ops, len, side, c.u(3), st, &q);
    else throw std::logic_error("C13: unknown coordinate type");
  } catch (const Fail& f) {
    // the element type goes into the signature: a failure that needs non-integer / unsigned coordinates is another class
    if (ptype == 1) throw Fail{f.sig + ":double", cat(f.msg, " [", DoubleMap::describe(), "]")};
    if (ptype == 2) throw Fail{f.sig + ":uint64", cat(f.msg, " [", PointOfU64::describe(), "]")};
    throw;
  }
  if (st.nontrivial) ctx().nontrivial_case();
  ctx().cls(cat("kdq", D, ":", ptype == 0 ? "int64" : ptype == 1 ? "double" : "uint64"));
  if (ptype == 1) ctx().cls(cat("kdq", D, ":double:zero-mode=", (c.u(5) / 8) % 4));
  ctx().cls(cat("kdq", D, ":range=", side <= 4 ? "<=4" : side <= 12 ? "5-12" : "13-97"));
  ctx().cls(cat("kdq", D, ":ops<=", len <= 8 ? "8" : len <= 30 ? "30" : len <= 100 ? "100" : "400"));
  ctx().cls(cat("kdq", D, ":first=", q.first, ":rest=", q.rest));
}

static void run_kdq2(const Case& c) {
  if (c.u(0) == 2) {
    run_query_history<2>(c);
  } else if (c.u(0) == 3) {
    size_t k = c.u(1);
    if (k > 8 || c.n.size() != 3 + k || c.u(2) > 24) throw std::logic_error("C13: malformed probe-block case");
    std::vector<uint64_t> cells(c.n.begin() + 3, c.n.end());
    for (uint64_t x : cells)
      if (x > 8) throw std::logic_error("C13: cell outside the 3x3 grid");
    Stats st;
    uint64_t cnt = run_probe_block(cells, c.u(2), st);
    ctx().count(cnt - 1);
    if (st.nontrivial) ctx().nontrivial_case();
  } else {
    throw std::logic_error("C13: unknown case mode");
  }
}
static void run_kdq3(const Case& c) {
  if (c.u(0) != 2) throw std::logic_error("C13: kdq3 has query histories only");
  run_query_history<3>(c);
}

// ---------------------------------------------------------------- mode 5: insertions whose value copy throws (subcheck kdx)

// case: n = [5, dimensions, side, salt, packed operations...] - a mode-0 history on KDTree<Vector2/3<int64_t>, ThrowingValue> in which
// the value field of an insertion also says which copy construction of the value throws (see KD::replay)
static void run_kdx(const Case& c) {
  if (c.u(0) != 5 || c.n.size() < 4) throw std::logic_error("C13: malformed kdx case");
  int64_t side = c.i(2);
  if (side < 1 || side > 12) throw std::logic_error("C13: grid side outside the domain");
  Stats st;
  if (c.u(1) == 2) KD<2, PointOf<2>, ThrowingValue>::replay(c.n.data() + 4, c.n.size() - 4, side, c.u(3), st, nullptr, true);
  else if (c.u(1) == 3) KD<3, PointOf<3>, ThrowingValue>::replay(c.n.data() + 4, c.n.size() - 4, side, c.u(3), st, nullptr, true);
  else throw std::logic_error("C13: kdx dimension");
  if (st.failed_inserts && st.mutations > st.failed_inserts) ctx().nontrivial_case();
  ctx().cls(cat("kdx:", c.u(1), "d:failed-inserts=", st.failed_inserts == 0 ? "0" : st.failed_inserts <= 3 ? "1-3" : ">3"));
  if (st.failed_but_stored) ctx().cls("kdx:insertion threw after the entry was stored (while building the returned iterator)", st.failed_but_stored);
  if (st.armed_inserts > st.failed_inserts) ctx().cls("kdx:armed insertion made fewer copies than the schedule asked for (succeeded)", st.armed_inserts - st.failed_inserts);
}
static Case gen_kdx() {
  Case c("kdx" C13_SUFFIX);
  uint64_t D = vg::pick<uint64_t>({2, 2, 3});
  int64_t side = (D == 2) ? vg::pick<int64_t>({2, 3, 3, 4, 5, 8}) : vg::pick<int64_t>({2, 3});
  uint64_t len = 1 + vg::scaled(vg::chance(1, 3) ? 10 : 40);
  c.N(5).N(D).I(side).N(vg::below(1000000));
  auto coord = [&]() { return static_cast<int64_t>(vg::below(side)); };
  for (uint64_t i = 0; i < len; i++) {
    unsigned r = vg::below(100);
    uint64_t value = vg::below(3);
    uint64_t inj = vg::pick<uint64_t>({0, 0, 0, 1, 1, 2}); // which copy of the value throws (0: none)
    if (r < 50) {
      unsigned code = (kGated && vg::coin()) ? EMPLACE : INSERT;
      c.N(pack_pt(code, coord(), coord(), D == 3 ? coord() : -1, value + 10 * inj));
    } else if (r < 62) {
      c.N(pack_raw(INSERT_DUP, (value + 3 * inj) + 10 * vg::below(1000)));
    } else if (r < 84) {
      c.N(pack_raw(ERASE_LIVE, vg::below(1000)));
    } else if (r < 90) {
      c.N(pack_pt(ERASE, coord(), coord(), D == 3 ? coord() : -1, value));
    } else {
      c.N(pack_raw(SWEEP, vg::pick<uint64_t>({1, 2, 4, 8}) + 10 * vg::below(100000)));
    }
  }
  return c;
}
// every sequence of 1..3 insertions into the 3x3 grid x every subset of them failing on the first copy, then one more successful
// insertion, one erase of a live entry and a full sweep (so that the tree is used on after the failure)
static void enum_kdx(Enum& e) {
  uint64_t idx = 0;
  unsigned max_k = e.thorough() ? 4 : 3;
  for (unsigned k = 1; k <= max_k; k++) {
    uint64_t total = 1;
    for (unsigned i = 0; i < k; i++) total *= 9;
    for (uint64_t code = 0; code < total && !e.stop; code++)
      for (uint64_t mask = 0; mask < (1ULL << k); mask++, idx++) {
        if (!e.mine(idx)) continue;
        Case c("kdx" C13_SUFFIX);
        c.N(5).N(2).I(3).N(code * 16 + mask);
        uint64_t t = code;
        for (unsigned i = 0; i < k; i++, t /= 9) c.N(pack_pt(INSERT, static_cast<int64_t>(t % 9 % 3), static_cast<int64_t>(t % 9 / 3), -1, i % 3 + 10 * ((mask >> i) & 1)));
        c.N(pack_pt(INSERT, 1, 1, -1, 2));
        c.N(pack_raw(ERASE_LIVE, code));
        c.N(pack_raw(SWEEP, 8 + 10 * mask));
        e.exec(c);
      }
  }
  e.complete(cat("every sequence of 1..", max_k, " insertions into the 3x3 grid x every subset of them ending with an exception (the first copy of the value throws), followed by a successful insertion, an erase and a sweep that empties the tree"));
}

// ---------------------------------------------------------------- mode 4: tall chains on a small-stack thread

// depth ranges: building a chain costs n^2/2 descent steps (0.3 s for 12000 entries under ASan, 0.5 s for 20000 without)
#ifdef C13_FAST
static const uint64_t kChainFixed = 24000, kChainMinQuick = 10000, kChainMaxQuick = 40000, kChainMaxThorough = 80000;
#else
static const uint64_t kChainFixed = 12000, kChainMinQuick = 6000, kChainMaxQuick = 16000, kChainMaxThorough = 30000;
#endif

static void run_kdchain(const Case& c) {
  if (c.u(0) != 4 || c.n.size() != 6) throw std::logic_error("C13: malformed chain case");
  uint64_t dims = c.u(1), shape = c.u(2), n = c.u(3), kib = c.u(4), salt = c.u(5);
  if ((dims != 2 && dims != 3) || shape >= NUM_CHAIN_SHAPES || n < 1 || n > 200000 || kib < 64 || kib > 8192) throw std::logic_error("C13: chain case outside the domain");
  Stats st;
  ChainInfo info;
  run_on_small_stack(kib, [&]() {
    if (dims == 2) KD<2>::chain_body(shape, n, salt, st, info);
    else KD<3>::chain_body(shape, n, salt, st, info);
  });
  if (st.nontrivial) ctx().nontrivial_case();
  ctx().cls(cat("kdchain:", kChainNames[shape], ":", dims, "d"));
  ctx().cls(cat("kdchain:entries", n < 1000 ? "<1000" : n < 8000 ? "<8000" : n < 20000 ? "<20000" : n < 50000 ? "<50000" : ">=50000"));
  ctx().cls(cat("kdchain:stack=", kib, "KiB"));
  ctx().cls(info.bfs_is_insertion_order ? "kdchain:one-chain(iteration=insertion order)" : "kdchain:not-a-single-chain");
  ctx().cls((salt & 1) ? "kdchain:destroyed-full" : "kdchain:destroyed-after-erases");
}

static Case gen_chain() {
  Case c("kdchain" C13_SUFFIX);
  uint64_t dims = vg::pick<uint64_t>({2, 2, 2, 3});
  uint64_t shape = vg::below(NUM_CHAIN_SHAPES);
  uint64_t hi = ctx().thorough() ? kChainMaxThorough : kChainMaxQuick;
  // mostly tall; one in five short (the same operations on a small stack without the cost)
  uint64_t n = vg::chance(1, 5) ? 1 + vg::below(600) : kChainMinQuick + vg::below(hi - kChainMinQuick + 1);
  uint64_t kib = vg::pick<uint64_t>({128, 192, 256, 256, 384, 512});
  c.N(4).N(dims).N(shape).N(n).N(kib).N(vg::below(1000000));
  return c;
}

// every shape once at a fixed depth on a 256 KiB stack (2-D, destroyed after the erase phase), two of them in 3-D and
// destroyed full
static void enum_kdchain(Enum& e) {
  uint64_t idx = 0;
  for (unsigned shape = 0; shape < NUM_CHAIN_SHAPES + 2 && !e.stop; shape++, idx++) {
    if (!e.mine(idx)) continue;
    Case c("kdchain" C13_SUFFIX);
    if (shape < NUM_CHAIN_SHAPES) c.N(4).N(2).N(shape).N(kChainFixed).N(256).N(2 + 4 * shape);
    else c.N(4).N(3).N(shape == NUM_CHAIN_SHAPES ? CHAIN_DESCENDING : CHAIN_HALF_HALF).N(kChainFixed).N(256).N(1);
    e.exec(c);
  }
  e.complete(cat("every chain shape (ascending, descending, all-equal, half-half, zigzag, staircase) with ", kChainFixed,
      " entries in 2-D and two of them in 3-D, built, queried, partly erased and destroyed on a thread with a 256 KiB stack"));
}

// Insertions that realise a chosen tree SHAPE (the tree is never rebalanced, so the shape is a function of the
// insertion order): a spine of `levels` nodes that turns to the before / after side by a pattern, and at every level,
// with a chosen probability, a small subtree on the other side. Built by keeping the box of coordinates that reach
// the current position: a point goes `before` iff its coordinate along the node's axis is smaller.
template <size_t D>
static void gen_shaped_inserts(Case& c, int64_t side) {
  std::array<int64_t, D> lo, hi;
  lo.fill(0);
  hi.fill(side);
  size_t levels = vg::coin() ? 1 + vg::scaled(110) : 36 + vg::below(80);
  unsigned pattern = vg::below(6); // 0 always after, 1 always before, 2 alternating by level, 3 random, 4 by axis, 5 runs
  unsigned sib_of_4 = vg::pick<unsigned>({0, 1, 2, 4, 4, 4}); // chance (in quarters) of a subtree on the other side
  bool defer = vg::coin(); // the side subtrees are inserted after the whole spine instead of right after their parent
  std::vector<uint64_t> deferred;
  auto code = [&]() { return (kGated && vg::coin()) ? EMPLACE : INSERT; };
  auto emit = [&](const std::array<int64_t, D>& q, bool side_subtree) {
    uint64_t w = pack_pt(code(), q[0], q[1], D == 3 ? q[2] : -1, vg::below(3));
    if (side_subtree && defer) deferred.push_back(w);
    else c.N(w);
  };
  auto in_box = [&](const std::array<int64_t, D>& l, const std::array<int64_t, D>& h) {
    std::array<int64_t, D> q;
    for (size_t e = 0; e < D; e++) {
      int64_t w = h[e] - l[e];
      switch (vg::below(3)) {
        case 0: q[e] = l[e]; break;
        case 1: q[e] = h[e] - 1; break;
        default: q[e] = l[e] + static_cast<int64_t>(vg::below(w)); break;
      }
    }
    return q;
  };
  size_t d = 0;
  bool run_dir = vg::coin();
  for (size_t lv = 0; lv < levels; lv++, d = (d + 1) % D) {
    bool want_before;
    switch (pattern) {
      case 0: want_before = false; break;
      case 1: want_before = true; break;
      case 2: want_before = (lv & 1) != 0; break;
      case 3: want_before = vg::coin(); break;
      case 4: want_before = (d == 0); break;
      default:
        if (vg::chance(1, 8)) run_dir = !run_dir;
        want_before = run_dir;
        break;
    }
    bool sib = vg::below(4) < sib_of_4;
    int64_t width = hi[d] - lo[d]; // >= 1
    std::array<int64_t, D> q = in_box(lo, hi);
    std::array<int64_t, D> slo = lo, shi = hi; // box of the other side
    if (want_before && width >= 2) {
      q[d] = hi[d] - 1 - ((width >= 3 && vg::chance(1, 4)) ? 1 : 0); // the spine goes on in [lo, q)
      slo[d] = q[d];
      emit(q, false);
      hi[d] = q[d];
    } else {
      // the spine goes on in [q, hi): always possible (ties go to after_or_equal)
      if (sib && width >= 2) q[d] = lo[d] + 1 + ((width >= 3 && vg::chance(1, 4)) ? 1 : 0);
      else q[d] = lo[d] + ((width >= 2 && vg::chance(1, 4)) ? 1 : 0);
      shi[d] = q[d];
      if (shi[d] <= slo[d]) sib = false; // nothing is smaller along this axis
      emit(q, false);
      lo[d] = q[d];
    }
    if (sib) {
      size_t cnt = 1 + vg::below(2);
      for (size_t j = 0; j < cnt; j++) emit(in_box(slo, shi), true);
    }
  }
  for (uint64_t w : deferred) c.N(w);
}

template <size_t D>
static Case gen_query_history() {
  Case c(D == 2 ? "kdq2" C13_SUFFIX : "kdq3" C13_SUFFIX);
  bool shaped = vg::chance(1, 4);
  int64_t side;
  if (shaped) side = vg::pick<int64_t>({12, 40, 97, 97});
  else side = (D == 2) ? vg::pick<int64_t>({2, 3, 3, 4, 4, 5, 6, 8, 12, 30, 97}) : vg::pick<int64_t>({2, 2, 3, 3, 4, 6, 30});
  uint64_t ptype = (D == 2) ? vg::pick<uint64_t>({0, 0, 1, 1, 1, 2}) : vg::pick<uint64_t>({0, 1, 1});
  uint64_t map_a = vg::below(8);
  // double coordinates: half of the cases spell the zero coordinate with different signs when storing and when querying (DoubleMap)
  if (ptype == 1 && vg::coin()) map_a += 8 * (1 + vg::below(3));
  int64_t map_b = vg::pick<int64_t>({0, side / 2, side, static_cast<int64_t>(vg::below(side + 2))});
  c.N(2).N(D).I(side).N(vg::below(1000000)).N(ptype).N(map_a).I(map_b);
  uint64_t maxlen = ctx().thorough() ? 300 : 60;
  if (vg::chance(1, 3)) maxlen = std::min<uint64_t>(maxlen, 12);
  uint64_t len = shaped ? vg::scaled(24) : vg::scaled(maxlen);
  // the battery after every mutation only on short histories (cost); the end-of-history battery always runs
  unsigned rest = (shaped || len > 30) ? vg::pick<unsigned>({0, 0, 1, 3}) : vg::pick<unsigned>({0, 0, 1, 2, 3});
  unsigned first = vg::pick<unsigned>({0, 1, 1, 1, 2, 3});
  c.N(first | (rest << 2));
  if (shaped) gen_shaped_inserts<D>(c, side);

  auto coord = [&]() { return static_cast<int64_t>(vg::below(side)); };
  // a few focus points: inserted, erased and looked up again and again, so that a lookup before a mutation and the same
  // lookup after it meet the same entry
  std::array<std::array<int64_t, 3>, 3> focus;
  for (auto& f : focus) f = {coord(), coord(), D == 3 ? coord() : -1};
  auto focus_or_any = [&](unsigned of8) -> std::array<int64_t, 3> {
    if (vg::below(8) < of8) return focus[vg::below(3)];
    return {coord(), coord(), D == 3 ? coord() : -1};
  };
  for (uint64_t i = 0; i < len; i++) {
    unsigned r = vg::below(100);
    uint64_t value = vg::below(3);
    if (r < 28) {
      unsigned code = (kGated && vg::coin()) ? EMPLACE : INSERT;
      auto p = focus_or_any(2);
      c.N(pack_pt(code, p[0], p[1], p[2], value));
    } else if (r < 34) {
      c.N(pack_raw(INSERT_DUP, value + 10 * vg::below(1000)));
    } else if (r < 46) {
      c.N(pack_raw(ERASE_LIVE, vg::below(1000)));
    } else if (r < 52) {
      auto p = focus_or_any(4);
      if (vg::chance(1, 4)) p[vg::below(D)] = vg::coin() ? -1 : side; // just outside
      c.N(pack_pt(ERASE, p[0], p[1], p[2], value));
    } else if (r < 64) {
      c.N(pack_raw(SWEEP, vg::pick<uint64_t>({1, 2, 4, 4, 6, 8}) + 10 * vg::below(100000)));
    } else if (r < 76) {
      auto p = focus_or_any(6);
      c.N(pack_pt(PROBE, p[0], p[1], p[2], 0));
    } else if (r < 90) {
      c.N(pack_raw(PROBE_LIVE, vg::below(1000)));
    } else if (r < 97) {
      c.N(pack_raw(BOX, vg::below(1000000)));
    } else {
      c.N(pack_raw(BATTERY, vg::below(1000)));
    }
  }
  return c;
}

// every insertion sequence of k cells of the 3x3 grid x every probed point of the 5x5 grid around it; each case
// stands for all single mutations (see run_probe_block)
static void enum_kdq2(Enum& e) {
  uint64_t idx = 0;
  unsigned max_k = e.thorough() ? 4 : 3;
  for (unsigned k = 1; k <= max_k; k++) {
    uint64_t total = 1;
    for (unsigned i = 0; i < k; i++) total *= 9;
    for (uint64_t code = 0; code < total && !e.stop; code++)
      for (uint64_t pc = 0; pc < 25 && !e.stop; pc++, idx++) {
        if (!e.mine(idx)) continue;
        Case blk("kdq2" C13_SUFFIX);
        blk.N(3).N(k).N(pc);
        uint64_t t = code;
        for (unsigned i = 0; i < k; i++) {
          blk.N(t % 9);
          t /= 9;
        }
        e.exec(blk);
      }
  }
  e.complete(cat("every insertion sequence of 1..", max_k, " cells of the 3x3 grid (repeats allowed) x every point of the 5x5 grid around it looked up, then one mutation ",
      "(erase_advance of every non-empty subset of the entries while iterating / erase of each entry / insert at each cell), then the same lookup first and the lookups of all cells"));
}

template <size_t D>
static Case gen_history() {
  Case c(D == 2 ? "kd2" C13_SUFFIX : "kd3" C13_SUFFIX);
  int64_t side = (D == 2) ? vg::pick<int64_t>({2, 3, 3, 4, 4, 5, 6, 8, 12}) : vg::pick<int64_t>({2, 2, 3, 3, 4});
  uint64_t maxlen = ctx().thorough() ? 300 : 60;
  if (D == 2 && side <= 4 && vg::chance(2, 3)) maxlen = 24; // the full battery runs after every step on small grids
  if (vg::chance(1, 3)) maxlen = std::min<uint64_t>(maxlen, 12);
  uint64_t len = vg::scaled(maxlen);
  c.N(0).N(D).I(side).N(vg::below(1000000));
  auto coord = [&]() { return static_cast<int64_t>(vg::below(side)); };
  bool drain_at_end = vg::chance(1, 4);
  for (uint64_t i = 0; i < len; i++) {
    unsigned r = vg::below(100);
    uint64_t value = vg::below(3);
    if (r < 42) {
      unsigned code = (kGated && vg::coin()) ? EMPLACE : INSERT;
      c.N(pack_pt(code, coord(), coord(), D == 3 ? coord() : -1, value));
    } else if (r < 54) {
      c.N(pack_raw(INSERT_DUP, value + 10 * vg::below(1000)));
    } else if (r < 80) {
      c.N(pack_raw(ERASE_LIVE, vg::below(1000)));
    } else if (r < 90) {
      // explicit erase: mostly of something that is not there (wrong value or empty cell), also just outside the grid
      int64_t x = static_cast<int64_t>(vg::below(side + 2)) - 1, y = static_cast<int64_t>(vg::below(side + 2)) - 1;
      int64_t z = D == 3 ? static_cast<int64_t>(vg::below(side + 2)) - 1 : -1;
      c.N(pack_pt(ERASE, x, y, z, value));
    } else {
      c.N(pack_raw(SWEEP, vg::pick<uint64_t>({1, 2, 4, 4, 6, 8}) + 10 * vg::below(100000)));
    }
  }
  if (drain_at_end && len > 0) c.N(pack_raw(SWEEP, 8 + 10 * vg::below(1000)));
  return c;
}

// every insertion sequence of k cells of the 3x3 grid (9^k), each with all k! erase orders
static void enum_level(Enum& e, unsigned k, bool equal_values, Battery level, uint64_t& idx) {
  uint64_t total = 1;
  for (unsigned i = 0; i < k; i++) total *= 9;
  for (uint64_t code = 0; code < total && !e.stop; code++, idx++) {
    if (!e.mine(idx)) continue;
    std::vector<uint64_t> cells(k);
    uint64_t t = code;
    for (unsigned i = 0; i < k; i++) {
      cells[i] = t % 9;
      t /= 9;
    }
    Case blk("kd2" C13_SUFFIX);
    blk.N(1).N(k).N(equal_values ? 1 : 0).N(level);
    for (uint64_t x : cells) blk.N(x);
    if (!e.exec(blk)) {
      // record the precise history too (same signature, smaller replay file)
      std::vector<unsigned> order;
      Stats st;
      try {
        run_exhaustive_block(cells, equal_values, level, st, &order);
      } catch (const Fail&) {
      }
      Case single("kd2" C13_SUFFIX);
      single.N(0).N(2).N(3).N(0);
      for (uint64_t w : block_history(cells, equal_values, order)) single.N(w);
      e.exec(single);
    }
  }
}

static void enum_kd2(Enum& e) {
  uint64_t idx = 0;
  bool th = e.thorough();
#ifndef C13_FAST
  unsigned full_k = th ? 4 : 3, medium_k = th ? 5 : 4;
  for (unsigned k = 1; k <= medium_k; k++) enum_level(e, k, false, k <= full_k ? FULL : MEDIUM, idx);
  for (unsigned k = 2; k <= medium_k; k++) enum_level(e, k, true, MEDIUM, idx);
  e.complete(cat("every insertion sequence of 1..", medium_k, " cells of the 3x3 grid (repeats allowed) followed by every erase order, with distinct and with equal values, the tree destroyed full and empty; ",
      "after the insertions: the full query battery (all 25 points of the grid and its ring, all 100 boxes); after every erase: the full battery for k<=", full_k,
      ", lookups + single-cell boxes + slabs + whole grid for k<=", medium_k));
#else
  // k=5 with the medium battery, and (thorough) k=6 with lookups only
  enum_level(e, 5, false, MEDIUM, idx);
  if (th) enum_level(e, 6, false, LOOKUPS, idx);
  e.complete(cat("every insertion sequence of 5", th ? " and of 6" : "", " cells of the 3x3 grid (repeats allowed, distinct values) followed by every erase order: full battery after the insertions; ",
      "after every erase lookups + single-cell boxes + slabs + whole grid (k=5)", th ? ", size + iteration + lookup of every live entry + absence of every other cell (k=6)" : "", " - build without sanitizers"));
#endif
}

int main(int argc, char** argv) {
  std::vector<SubCheck> checks;
#ifdef C13_FAST
  checks.push_back({"kd2" C13_SUFFIX, run_kd2, nullptr, 0, 0, 100, enum_kd2});
  checks.push_back({"kdchain" C13_SUFFIX, run_kdchain, gen_chain, 8, 48, 100, enum_kdchain});
#else
  checks.push_back({"kd2" C13_SUFFIX, run_kd2, gen_history<2>, kGated ? 6000 : 15000, kGated ? 60000 : 300000, 100, kGated ? std::function<void(Enum&)>() : enum_kd2});
  checks.push_back({"kd3" C13_SUFFIX, run_kd3, gen_history<3>, kGated ? 4000 : 8000, kGated ? 40000 : 150000, 100, nullptr});
  checks.push_back({"kdq2" C13_SUFFIX, run_kdq2, gen_query_history<2>, kGated ? 2000 : 8000, kGated ? 20000 : 160000, 100, kGated ? std::function<void(Enum&)>() : enum_kdq2});
  checks.push_back({"kdq3" C13_SUFFIX, run_kdq3, gen_query_history<3>, kGated ? 1000 : 4000, kGated ? 10000 : 80000, 100, nullptr});
  if (!kGated) checks.push_back({"kdchain" C13_SUFFIX, run_kdchain, gen_chain, 8, 96, 100, enum_kdchain});
  checks.push_back({"kdx" C13_SUFFIX, run_kdx, gen_kdx, kGated ? 1500 : 5000, kGated ? 15000 : 80000, 100, kGated ? std::function<void(Enum&)>() : enum_kdx});
#endif
  return main_(argc, argv, checks);
}
